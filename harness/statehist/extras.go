package statehist

import (
	"verifharness/hx"
)

// Block extras beyond the state diff (C04): transactions with events, L1-handler transactions, Sierra
// declarations, CASM migrations, system-contract writes, and the explicit "zero write to an absent
// slot" that the legacy backend cannot revert.

// SierraInfo records what the chain knows about a declared Sierra class.
type SierraInfo struct {
	V1       bool // declared below 0.14.1: carries a v1 hash and can be migrated once
	Migrated bool
}

// Registry is the part of the abstract chain state the extras depend on. It follows the chain through
// forks by Clone (take a copy at the fork point).
type Registry struct {
	Sierra     map[uint64]SierraInfo
	NextSierra uint64
	NextL1     uint64
}

func NewRegistry() *Registry { return &Registry{Sierra: map[uint64]SierraInfo{}, NextSierra: 1} }

func (g *Registry) Clone() *Registry {
	c := &Registry{Sierra: map[uint64]SierraInfo{}, NextSierra: g.NextSierra, NextL1: g.NextL1}
	for k, v := range g.Sierra {
		c.Sierra[k] = v
	}
	return c
}

// ExtrasConfig: chances in percent.
type ExtrasConfig struct {
	V0141Pct    int // block uses protocol version 0.14.1 (else 0.14.0)
	TxPct       int // block carries invoke transactions (1..3, each with 0..3 events)
	L1Pct       int // block carries 1..2 L1-handler transactions
	SierraPct   int // block declares a Sierra class
	MigratePct  int // per migratable class, in a 0.14.1 block
	SysPct      int // block writes to system contract 0x1 / 0x2
	SysZeroPct  int // chance that such a write is a zero write (may empty the contract: the shape both backends get wrong)
	ZeroNoopPct int // block writes zero to an absent slot of a deployed-or-being-deployed contract
	PreV014     bool // block carries a protocol version below 0.14.0 (PreV014Version): the state commitment of a state
	// without Sierra classes is then the bare contracts root, so a chain crossing into 0.14.0 changes the formula
}

// PreV014Version is the protocol version used for blocks below the 0.14.0 crossing (>= 0.13.4: same block hash formula).
const PreV014Version = "0.13.5"

func DefaultExtrasConfig() *ExtrasConfig {
	return &ExtrasConfig{V0141Pct: 40, TxPct: 55, L1Pct: 30, SierraPct: 25, MigratePct: 45, SysPct: 15, SysZeroPct: 0, ZeroNoopPct: 0}
}

// Emitters of generated events.
var Emitters = []string{"64", "65", "77"}

// IsSysAddr: the protocol system contracts 0x1 / 0x2.
func IsSysAddr(a string) bool { return a == "1" || a == "2" }

// AddExtras decorates spec (a block about to be pushed on top of g's abstract head) and updates reg.
// labels lists the features added.
func AddExtras(r *hx.RNG, g *Gen, reg *Registry, cfg *ExtrasConfig, spec *BlockSpec) (labels []string) {
	spec.Version = "0.14.0"
	v1 := true
	if cfg.PreV014 {
		spec.Version = PreV014Version
		labels = append(labels, "version-pre-0.14")
	} else if r.Chance(cfg.V0141Pct) {
		spec.Version, v1 = "0.14.1", false
		labels = append(labels, "version-0.14.1")
	}
	small := []string{"1", "2", "3", "a0"}
	if r.Chance(cfg.TxPct) {
		for i := 1 + r.Intn(3); i > 0; i-- {
			var evs []Ev
			for j := r.Intn(4); j > 0; j-- {
				e := Ev{From: Emitters[r.Intn(len(Emitters))]}
				for k := r.Intn(3); k > 0; k-- {
					e.Keys = append(e.Keys, small[r.Intn(len(small))])
				}
				for k := r.Intn(3); k > 0; k-- {
					e.Data = append(e.Data, small[r.Intn(len(small))])
				}
				evs = append(evs, e)
				labels = append(labels, "event")
			}
			spec.Txs = append(spec.Txs, evs)
			labels = append(labels, "invoke-tx")
		}
	}
	if r.Chance(cfg.L1Pct) {
		for i := 1 + r.Intn(2); i > 0; i-- {
			spec.L1 = append(spec.L1, L1Msg{To: g.U.Addrs[r.Intn(len(g.U.Addrs))], Selector: "5", Nonce: U(reg.NextL1),
				Payload: []string{"e1e1", small[r.Intn(len(small))]}})
			reg.NextL1++
			labels = append(labels, "l1-handler-tx")
		}
	}
	if !v1 {
		for _, id := range sortedIDs(reg.Sierra) {
			if inf := reg.Sierra[id]; inf.V1 && !inf.Migrated && r.Chance(cfg.MigratePct) {
				spec.Migrate = append(spec.Migrate, SierraDecl{ID: id, Casm: SierraCasmV2(id)})
				inf.Migrated = true
				reg.Sierra[id] = inf
				labels = append(labels, "casm-migration")
			}
		}
	}
	if r.Chance(cfg.SierraPct) {
		id := reg.NextSierra
		reg.NextSierra++
		spec.DeclareV1 = append(spec.DeclareV1, SierraDecl{ID: id, Casm: U(0xca5000 + id)})
		reg.Sierra[id] = SierraInfo{V1: v1}
		labels = append(labels, "sierra-declaration")
	}
	if r.Chance(cfg.SysPct) {
		cur := g.Cur()
		for i := 1 + r.Intn(2); i > 0; i-- {
			a, k := []string{"1", "2"}[r.Intn(2)], small[r.Intn(2)]
			dup := false
			for _, e := range spec.Diff.Store {
				dup = dup || (e.A == a && e.K == k)
			}
			if dup {
				continue
			}
			v := small[r.Intn(3)]
			if r.Chance(cfg.SysZeroPct) {
				// a zero write: preferably over a slot that is non-zero now (may empty the contract), else -
				// one time in three - to a zero slot / a missing contract
				var nz []string
				for _, kk := range small[:2] {
					if cur.SlotAt(a, kk) != "0" {
						nz = append(nz, kk)
					}
				}
				switch {
				case len(nz) > 0:
					k, v = nz[r.Intn(len(nz))], "0"
					for _, e := range spec.Diff.Store {
						dup = dup || (e.A == a && e.K == k)
					}
					if dup {
						continue
					}
				case r.Chance(33):
					v = "0"
				}
			}
			spec.Diff.Store = append(spec.Diff.Store, AKV{A: a, K: k, V: v})
			labels = append(labels, "system-contract-write")
			if v == "0" {
				labels = append(labels, "system-contract-zero-write")
			}
		}
		// does the block empty a system contract (or write only zeros to a missing one)?
		after := cur.Clone()
		after.Apply(0, &spec.Diff)
		for _, a := range []string{"1", "2"} {
			touched := false
			for _, e := range spec.Diff.Store {
				touched = touched || e.A == a
			}
			if touched && !after.SysExists(a) {
				labels = append(labels, "system-contract-left-empty")
			}
		}
	}
	if r.Chance(cfg.ZeroNoopPct) {
		if InjectZeroNoop(r, g, spec) {
			labels = append(labels, "write-zero-noop")
		}
	}
	return labels
}

// InjectZeroNoop adds a zero write to a slot that is zero in g's abstract head, on a contract that is
// deployed or deployed by spec. False when there is no such contract / slot.
func InjectZeroNoop(r *hx.RNG, g *Gen, spec *BlockSpec) bool {
	cur := g.Cur()
	var cands []AKV
	for _, a := range g.U.Addrs {
		_, dep := cur.Class[a]
		for _, e := range spec.Diff.Deploy {
			dep = dep || e.A == a
		}
		if !dep {
			continue
		}
	slots:
		for _, k := range g.U.Slots {
			if cur.SlotAt(a, k) != "0" {
				continue
			}
			for _, e := range spec.Diff.Store {
				if e.A == a && e.K == k {
					continue slots
				}
			}
			cands = append(cands, AKV{A: a, K: k, V: "0"})
		}
	}
	if len(cands) == 0 {
		return false
	}
	spec.Diff.Store = append(spec.Diff.Store, cands[r.Intn(len(cands))])
	return true
}

func sortedIDs(m map[uint64]SierraInfo) []uint64 {
	ids := make([]uint64, 0, len(m))
	for id := range m {
		ids = append(ids, id)
	}
	for i := 1; i < len(ids); i++ {
		for j := i; j > 0 && ids[j] < ids[j-1]; j-- {
			ids[j], ids[j-1] = ids[j-1], ids[j]
		}
	}
	return ids
}
