package statehist

import (
	"github.com/NethermindEth/juno/core/felt"
	"verifharness/hx"
)

// GenConfig tunes the generator.
type GenConfig struct {
	MinOps, MaxOps int
	// Legacy: predict the legacy backend's failing reverts (head block, number >= 1, wrote zero to a
	// zero slot: no history entry is logged and GetReverseStateDiff reports ErrCheckHeadState). A predicted
	// failing revert leaves the abstract chain unchanged so that later diffs stay valid.
	Legacy bool
	// Values / class hashes the generator draws from.
	Values       []string
	DeployClass  []string // class hashes a deployment / replacement may use (need not be declared)
	ZeroNoopPct  int      // chance (percent) that a write to a zero slot writes zero
	RedeclarePct int      // chance (percent) that an already declared class is declared again
	// DelivPct: chance (percent) that a block which deploys contracts comes with the class definitions of (a
	// non-empty subset of) its deployed contracts' class hashes that it does not declare itself - whether the
	// chain knows the class already or not (Diff.Deliv).
	DelivPct int
}

func DefaultGenConfig(u *Universe, legacy bool) *GenConfig {
	return &GenConfig{
		MinOps: 4, MaxOps: 14, Legacy: legacy,
		Values:      []string{"1", "2", "3", "deadbeef", BigValue},
		DeployClass: append(append([]string{}, u.Classes...), "dd"),
		ZeroNoopPct: 10, RedeclarePct: 3, DelivPct: 10,
	}
}

// level of the abstract chain: the block and the state after it
type level struct {
	spec     *BlockSpec
	after    *Abs
	zeroNoop bool
}

// Gen is the generator state: the abstract chain it tracks so that every emitted diff is valid.
type Gen struct {
	R     *hx.RNG
	U     *Universe
	Cfg   *GenConfig
	stack []level
	// blocks that were reverted, by the height they stood at (candidates for "restore the same block")
	reverted map[int]*BlockSpec
}

func NewGen(r *hx.RNG, u *Universe, cfg *GenConfig) *Gen {
	return &Gen{R: r, U: u, Cfg: cfg, reverted: map[int]*BlockSpec{}}
}

// Cur is the abstract head state (a fresh empty state when the chain is empty). Do not modify.
func (g *Gen) Cur() *Abs {
	if len(g.stack) == 0 {
		return NewAbs()
	}
	return g.stack[len(g.stack)-1].after
}

// Height is the number of blocks of the abstract chain.
func (g *Gen) Height() int { return len(g.stack) }

// StateAt is the abstract state after block n of the current abstract chain.
func (g *Gen) StateAt(n int) *Abs { return g.stack[n].after }

func (g *Gen) pick(l []string) string { return l[g.R.Intn(len(l))] }

func (g *Gen) otherThan(l []string, x string) string {
	for i := 0; i < 8; i++ {
		if v := g.pick(l); v != x {
			return v
		}
	}
	return g.pick(l)
}

// Diff generates a valid diff on top of the abstract head.
func (g *Gen) Diff() *Diff {
	r, cur := g.R, g.Cur()
	d := &Diff{}
	being := map[string]bool{}
	depPct := 30
	if len(cur.Class) == 0 {
		depPct = 65
	}
	for _, a := range g.U.Addrs {
		if _, ok := cur.Class[a]; !ok && r.Chance(depPct) {
			d.Deploy = append(d.Deploy, AV{A: a, V: g.pick(g.Cfg.DeployClass)})
			being[a] = true
		}
	}
	for _, a := range g.U.Addrs {
		if c, ok := cur.Class[a]; ok && r.Chance(15) {
			v := g.otherThan(g.Cfg.DeployClass, c)
			if r.Chance(15) {
				v = c // replacement by the same class
			}
			d.Replace = append(d.Replace, AV{A: a, V: v})
		}
	}
	for _, a := range g.U.Addrs {
		n, dep := cur.Nonce[a]
		if !(dep || being[a]) || !r.Chance(25) {
			continue
		}
		if !dep {
			n = "0"
		}
		var v string
		switch x := r.Intn(10); {
		case x < 6:
			v = Hex(new(felt.Felt).Add(Felt(n), FU(1)))
		case x < 7:
			v = n // same value
		case x < 8:
			v = "0"
		default:
			v = g.pick(g.Cfg.Values)
		}
		d.Nonce = append(d.Nonce, AV{A: a, V: v})
	}
	for _, a := range g.U.Addrs {
		if _, dep := cur.Class[a]; !(dep || being[a]) {
			continue
		}
		for _, k := range g.U.Slots {
			if !r.Chance(25) {
				continue
			}
			old := cur.SlotAt(a, k)
			var v string
			if old == "0" {
				if r.Chance(g.Cfg.ZeroNoopPct) {
					v = "0"
				} else {
					v = g.pick(g.Cfg.Values)
				}
			} else {
				switch x := r.Intn(100); {
				case x < 35:
					v = "0"
				case x < 55:
					v = old
				default:
					v = g.otherThan(g.Cfg.Values, old)
				}
			}
			d.Store = append(d.Store, AKV{A: a, K: k, V: v})
		}
	}
	for _, h := range g.U.Classes {
		if _, ok := cur.Decl[h]; (!ok && r.Chance(22)) || (ok && r.Chance(g.Cfg.RedeclarePct)) {
			d.Decl = append(d.Decl, h)
		}
	}
	// Go maps have no order; shuffle so that the model's list order (first entry wins) is not
	// accidentally tied to universe order.
	shuffle(r, d.Deploy)
	shuffle(r, d.Replace)
	shuffle(r, d.Nonce)
	shuffle(r, d.Store)
	shuffle(r, d.Decl)
	g.deliver(d)
	return d
}

// deliver decides which class definitions come with the block for its deployed contracts.
func (g *Gen) deliver(d *Diff) {
	r := g.R
	if len(d.Deploy) == 0 || g.Cfg.DelivPct == 0 || !r.Chance(g.Cfg.DelivPct) {
		return
	}
	declared := map[string]bool{}
	for _, h := range d.Decl {
		declared[h] = true
	}
	var cands []string
	seen := map[string]bool{}
	for _, e := range d.Deploy {
		if !declared[e.V] && !seen[e.V] {
			seen[e.V] = true
			cands = append(cands, e.V)
		}
	}
	if len(cands) == 0 {
		return
	}
	shuffle(r, cands)
	k := 1
	if len(cands) > 1 && r.Chance(50) {
		k = 1 + r.Intn(len(cands))
	}
	d.Deliv = cands[:k]
}

func shuffle[T any](r *hx.RNG, l []T) {
	for i := len(l) - 1; i > 0; i-- {
		j := r.Intn(i + 1)
		l[i], l[j] = l[j], l[i]
	}
}

// Push records a stored block on the abstract chain.
func (g *Gen) Push(spec *BlockSpec) {
	cur := g.Cur()
	after := cur.Clone()
	after.Apply(uint64(len(g.stack)), spec.ModelDiff())
	g.stack = append(g.stack, level{spec: spec, after: after, zeroNoop: cur.HasZeroNoop(&spec.Diff)})
}

// RevertWillFail predicts the outcome of RevertHead: only reverting an empty chain fails. (Before juno
// commit 1b89e86 the legacy backend also failed after a zero write to an absent slot above genesis; the
// zeroNoop flag of a level is still recorded for the histogram.)
func (g *Gen) RevertWillFail() bool {
	return len(g.stack) == 0
}

// Pop records a head revert on the abstract chain; false when the revert is predicted to fail
// (nothing changes then).
func (g *Gen) Pop() bool {
	if g.RevertWillFail() {
		return false
	}
	top := g.stack[len(g.stack)-1]
	g.stack = g.stack[:len(g.stack)-1]
	g.reverted[len(g.stack)] = top.spec
	return true
}

// NextStore generates the next block: sometimes the very block that was reverted at this height
// (same salt = identical block and hash, or a new salt = same diff in a different block), otherwise a
// fresh diff. afterRevert biases towards a DIFFERENT block.
func (g *Gen) NextStore(afterRevert bool) (spec *BlockSpec, kind string) {
	r := g.R
	h := len(g.stack)
	if old, ok := g.reverted[h]; ok && afterRevert && r.Chance(25) && g.Cur().Valid(old.ModelDiff()) {
		c := old.Clone()
		kind = "restore-same"
		if r.Chance(40) {
			c.Salt = old.Salt + 1 + uint64(r.Intn(3))
			kind = "restore-same-diff-new-salt"
		}
		return c, kind
	}
	return &BlockSpec{Diff: *g.Diff(), Salt: uint64(r.Intn(4))}, "store"
}

// Case generates one op sequence. labels[i] lists the kind of op i followed by the kinds of its diff
// entries (histogram labels).
func (g *Gen) Case() (ops []Op, labels [][]string) {
	r := g.R
	n := g.Cfg.MinOps + r.Intn(g.Cfg.MaxOps-g.Cfg.MinOps+1)
	afterRevert := false
	emitStore := func() {
		spec, kind := g.NextStore(afterRevert)
		labels = append(labels, append([]string{kind}, g.Cur().Kinds(&spec.Diff)...))
		g.Push(spec)
		ops = append(ops, Op{Block: spec})
		afterRevert = false
	}
	for len(ops) < n {
		h := len(g.stack)
		switch {
		case h == 0 && r.Chance(3):
			// revert of the empty chain: fails, nothing changes
			ops = append(ops, Op{Revert: true})
			labels = append(labels, []string{"revert-empty"})
		case h > 0 && r.Chance(28):
			burst := 1
			switch x := r.Intn(100); {
			case x < 55:
			case x < 80:
				burst = 2
			case x < 90:
				burst = 3
			default:
				burst = h // down to and including genesis
			}
			for i := 0; i < burst && len(ops) < n; i++ {
				lab := "revert"
				if len(g.stack) == 1 {
					lab = "revert-to-genesis"
				}
				if !g.Pop() {
					if len(g.stack) == 0 {
						break
					}
					lab = "revert-predicted-to-fail"
					ops = append(ops, Op{Revert: true})
					labels = append(labels, []string{lab})
					break
				}
				ops = append(ops, Op{Revert: true})
				labels = append(labels, []string{lab})
			}
			afterRevert = true
			// a revert is followed by a block (usually a different one) unless the case is full
			if len(ops) < n && r.Chance(85) {
				emitStore()
			}
		default:
			emitStore()
		}
	}
	return ops, labels
}

// Nontrivial: the sequence contains a revert followed (later) by a store, or a zero / same-value write.
func Nontrivial(ops []Op) bool {
	seenRevert := false
	a := NewAbs()
	var stack []*Abs
	for _, o := range ops {
		if o.Revert {
			seenRevert = true
			if len(stack) > 0 {
				stack = stack[:len(stack)-1]
			}
			if len(stack) > 0 {
				a = stack[len(stack)-1]
			} else {
				a = NewAbs()
			}
			continue
		}
		if seenRevert {
			return true
		}
		for _, e := range o.Block.Diff.Store {
			if IsZeroHex(e.V) || a.SlotAt(e.A, e.K) == e.V {
				return true
			}
		}
		n := a.Clone()
		n.Apply(uint64(len(stack)), o.Block.ModelDiff())
		stack = append(stack, n)
		a = n
	}
	return false
}
