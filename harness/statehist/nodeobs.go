package statehist

import (
	"bytes"
	"crypto/sha256"
	"encoding/binary"
	"encoding/hex"
	"errors"
	"fmt"
	"math/big"
	"sort"
	"strconv"
	"strings"

	"github.com/NethermindEth/juno/blockchain"
	"github.com/NethermindEth/juno/core"
	"github.com/NethermindEth/juno/core/felt"
	"github.com/NethermindEth/juno/db"
	"github.com/NethermindEth/juno/encoder"
	"github.com/NethermindEth/juno/l1/eth"
)

// ---------- everything a client can ask a node (blockchain.Reader + state + events) ----------

// QueryCtx lists what to ask: every block number 0..MaxNumber, every block / transaction / L1 message
// hash ever produced in the experiment (also those of reverted blocks), transaction indexes 0..MaxIndex.
type QueryCtx struct {
	MinNumber   uint64 // first block number of the per-number queries (0 = from genesis)
	MaxNumber   uint64
	MaxIndex    uint64
	BlockHashes []*felt.Felt
	TxHashes    []*felt.Felt
	L1Msgs      [][]byte
	U           *Universe // state reads
	HeadOnly    bool      // state reads at head only (skip the by-number / by-hash readers)
	Emitters    []string  // per-emitter event queries
}

// Fact is one canonicalised answer. Family names the index family / API (violation class suffix).
type Fact struct {
	Family, Key, Val string
}

// canon canonicalises (value, error): "notfound" for db.ErrKeyNotFound, "err:<msg>" for other
// errors, otherwise a digest of the canonical CBOR encoding (juno's encoder: sorted map keys).
func canon(v any, err error) string {
	if err != nil {
		if errors.Is(err, db.ErrKeyNotFound) {
			return "notfound"
		}
		return "err:" + err.Error()
	}
	b, merr := encoder.Marshal(v)
	if merr != nil {
		return "unencodable:" + merr.Error()
	}
	h := sha256.Sum256(b)
	return fmt.Sprintf("cbor[%d]:%s", len(b), hex.EncodeToString(h[:8]))
}

func feltOrErr(f *felt.Felt, err error) string {
	if err != nil {
		return canon(nil, err)
	}
	if f == nil {
		return "nil"
	}
	return Hex(f)
}

// ObserveNode asks every question of q. The order of the facts is deterministic.
func ObserveNode(n *Node, q *QueryCtx) []Fact {
	bc := n.BC
	var fs []Fact
	add := func(fam, key, val string) { fs = append(fs, Fact{fam, key, val}) }

	h, err := bc.Height()
	if err != nil {
		add("height", "", canon(nil, err))
	} else {
		add("height", "", strconv.FormatUint(h, 10))
	}
	hb, err := bc.Head()
	add("head", "", canon(hb, err))
	hh, err := bc.HeadsHeader()
	add("heads-header", "", canon(hh, err))
	if err == nil {
		add("head-state-root", "", Hex(hh.GlobalStateRoot))
	} else {
		add("head-state-root", "", canon(nil, err))
	}
	for num := q.MinNumber; num <= q.MaxNumber; num++ {
		k := strconv.FormatUint(num, 10)
		b, err := bc.BlockByNumber(num)
		add("block-by-number", k, canon(b, err))
		hd, err := bc.BlockHeaderByNumber(num)
		add("header-by-number", k, canon(hd, err))
		add("hash-by-number", k, feltOrErr(bc.BlockHeaderHashByNumber(num)))
		add("state-root-by-number", k, feltOrErr(bc.GlobalStateRootByBlockNumber(num)))
		cnt, err := bc.BlockTransactionCountByNumber(num)
		if err != nil {
			add("tx-count-by-number", k, canon(nil, err))
		} else {
			add("tx-count-by-number", k, strconv.FormatUint(cnt, 10))
		}
		txs, err := bc.TransactionsByBlockNumber(num)
		add("txs-by-number", k, canonList(len(txs), txs, err))
		txs2, rcs, err := bc.TransactionsAndReceiptsByBlockNumber(num)
		add("txs+receipts-by-number", k, canonList(len(txs2), []any{txs2, rcs}, err))
		ths, err := bc.TransactionHashesByBlockNumber(num)
		if err != nil {
			add("tx-hashes-by-number", k, canon(nil, err))
		} else {
			p := make([]string, len(ths))
			for i := range ths {
				p[i] = Hex(&ths[i])
			}
			add("tx-hashes-by-number", k, "["+strings.Join(p, " ")+"]")
		}
		su, err := bc.StateUpdateByNumber(num)
		add("state-update-by-number", k, canon(su, err))
		cm, err := bc.BlockCommitmentsByNumber(num)
		add("commitments-by-number", k, canon(cm, err))
		for idx := uint64(0); idx <= q.MaxIndex; idx++ {
			ki := k + "/" + strconv.FormatUint(idx, 10)
			tx, err := bc.TransactionByBlockNumberAndIndex(num, idx)
			add("tx-by-number+index", ki, canon(tx, err))
			tx2, rc, bh, err := bc.TransactionAndReceiptByBlockNumberAndIndex(num, idx)
			if err != nil {
				add("tx+receipt-by-number+index", ki, canon(nil, err))
			} else {
				add("tx+receipt-by-number+index", ki, canon([]any{tx2, rc, bh}, nil))
			}
			st, err := bc.TransactionExecutionStatusByBlockNumberAndIndex(num, idx)
			add("status-by-number+index", ki, canon(st, err))
		}
	}
	for _, bh := range q.BlockHashes {
		k := Hex(bh)
		b, err := bc.BlockByHash(bh)
		add("block-by-hash", k, canon(b, err))
		hd, err := bc.BlockHeaderByHash(bh)
		add("header-by-hash", k, canon(hd, err))
		num, err := bc.BlockNumberByHash(bh)
		if err != nil {
			add("number-by-hash", k, canon(nil, err))
		} else {
			add("number-by-hash", k, strconv.FormatUint(num, 10))
		}
		su, err := bc.StateUpdateByHash(bh)
		add("state-update-by-hash", k, canon(su, err))
		_, closer, err := bc.StateAtBlockHash(bh)
		if err != nil {
			add("state-at-hash", k, canon(nil, err))
		} else {
			closer()
			add("state-at-hash", k, "ok")
		}
	}
	for _, th := range q.TxHashes {
		k := Hex(th)
		tx, err := bc.TransactionByHash(th)
		add("tx-by-hash", k, canon(tx, err))
		rc, bh, num, err := bc.Receipt(th)
		if err != nil {
			add("receipt-by-hash", k, canon(nil, err))
		} else {
			add("receipt-by-hash", k, canon([]any{rc, bh, num}, nil))
		}
		num, idx, err := bc.BlockNumberAndIndexByTxHash((*felt.TransactionHash)(th))
		if err != nil {
			add("number+index-by-tx-hash", k, canon(nil, err))
		} else {
			add("number+index-by-tx-hash", k, fmt.Sprintf("%d/%d", num, idx))
		}
	}
	for _, m := range q.L1Msgs {
		mh := eth.HashFromBytes(m)
		th, err := bc.L1HandlerTxnHash(&mh)
		add("l1-handler-by-msg-hash", hex.EncodeToString(m), feltOrErr(&th, err))
	}
	// state readers
	if q.U != nil && !q.HeadOnly {
		for num := uint64(0); num <= q.MaxNumber; num++ {
			k := strconv.FormatUint(num, 10)
			toks := Observe(bc, q.U, ByNumber, num, nil)
			qs := q.U.Queries()
			for i, t := range toks {
				add("state:bynumber:"+qs[i].Kind, k+"/"+qs[i].String(), t)
			}
			for i, t := range ObserveCasm(bc, q.U.Classes, ByNumber, num, nil) {
				add("state:bynumber:casm", k+"/casm("+q.U.Classes[i]+")", t)
			}
		}
		for _, bh := range q.BlockHashes {
			toks := Observe(bc, q.U, ByHash, 0, bh)
			qs := q.U.Queries()
			for i, t := range toks {
				add("state:byhash:"+qs[i].Kind, Hex(bh)+"/"+qs[i].String(), t)
			}
			for i, t := range ObserveCasm(bc, q.U.Classes, ByHash, 0, bh) {
				add("state:byhash:casm", Hex(bh)+"/casm("+q.U.Classes[i]+")", t)
			}
		}
	}
	if q.U != nil {
		toks := Observe(bc, q.U, Head, 0, nil)
		qs := q.U.Queries()
		for i, t := range toks {
			add("state:head:"+qs[i].Kind, qs[i].String(), t)
		}
		for i, t := range ObserveCasm(bc, q.U.Classes, Head, 0, nil) {
			add("state:head:casm", "casm("+q.U.Classes[i]+")", t)
		}
	}
	// events
	add("events:all", "", eventsOf(bc, nil))
	for _, e := range q.Emitters {
		add("events:by-emitter", e, eventsOf(bc, []felt.Address{felt.Address(*Felt(e))}))
	}
	return fs
}

func canonList(n int, v any, err error) string {
	if err != nil {
		return canon(nil, err)
	}
	return fmt.Sprintf("n=%d %s", n, canon(v, nil))
}

func noPreConfirmed() (blockchain.PreConfirmedReader, error) { return nil, nil }

// eventsOf lists every event of the whole chain matching the addresses through Blockchain.EventFilter.
func eventsOf(bc *blockchain.Blockchain, addrs []felt.Address) string {
	return eventsQuery(bc, addrs, nil, nil, nil)
}

// EventsQuery lists the events matching emitter addresses (hex, nil = any) and per-position key sets
// (hex, nil = any) in the block range [from, to] (nil = chain ends) through Blockchain.EventFilter, paging
// with 1000-event chunks. The answer is one canonical string.
func EventsQuery(bc *blockchain.Blockchain, addrs []string, keys [][]string, from, to *uint64) string {
	var as []felt.Address
	for _, a := range addrs {
		as = append(as, felt.Address(*Felt(a)))
	}
	var ks [][]felt.Felt
	for _, pos := range keys {
		var l []felt.Felt
		for _, k := range pos {
			l = append(l, *Felt(k))
		}
		ks = append(ks, l)
	}
	return eventsQuery(bc, as, ks, from, to)
}

func eventsQuery(bc *blockchain.Blockchain, addrs []felt.Address, keys [][]felt.Felt, from, to *uint64) string {
	f, err := bc.EventFilter(addrs, keys, noPreConfirmed)
	if err != nil {
		return canon(nil, err)
	}
	defer f.Close()
	if from != nil {
		if err := f.SetRangeEndBlockByNumber(blockchain.EventFilterFrom, *from); err != nil {
			return canon(nil, err)
		}
	}
	if to != nil {
		if err := f.SetRangeEndBlockByNumber(blockchain.EventFilterTo, *to); err != nil {
			return canon(nil, err)
		}
	}
	var out []string
	var tok *blockchain.ContinuationToken
	for round := 0; round < 64; round++ {
		evs, next, err := f.Events(tok, 1000)
		if err != nil {
			return canon(nil, err)
		}
		for _, e := range evs {
			ks := make([]string, len(e.Keys))
			for i := range e.Keys {
				ks[i] = Hex(&e.Keys[i])
			}
			ds := make([]string, len(e.Data))
			for i := range e.Data {
				ds[i] = Hex(&e.Data[i])
			}
			out = append(out, fmt.Sprintf("%d/%s/%d/%d/%s/%s/%s/%s", e.BlockNumber, feltOrErr(e.BlockHash, nil), e.TransactionIndex, e.EventIndex,
				feltOrErr(e.TransactionHash, nil), feltOrErr(e.From, nil), strings.Join(ks, "+"), strings.Join(ds, "+")))
		}
		if next.IsEmpty() {
			break
		}
		n := next
		tok = &n
	}
	return fmt.Sprintf("n=%d [%s]", len(out), strings.Join(out, " "))
}

// DiffFacts returns the first differing fact per family (facts are aligned: same QueryCtx).
func DiffFacts(a, b []Fact) (diffs []struct{ A, B Fact }) {
	seen := map[string]bool{}
	if len(a) != len(b) {
		return []struct{ A, B Fact }{{Fact{"fact-count", "", strconv.Itoa(len(a))}, Fact{"fact-count", "", strconv.Itoa(len(b))}}}
	}
	for i := range a {
		if a[i] != b[i] && !seen[a[i].Family] {
			seen[a[i].Family] = true
			diffs = append(diffs, struct{ A, B Fact }{a[i], b[i]})
		}
	}
	return diffs
}

// ---------- raw database dump ----------

// KV is one raw database entry.
type KV struct {
	K, V []byte
}

// DumpDB lists the whole database grouped by bucket (first key byte), keys in order.
func DumpDB(d db.KeyValueStore) (map[byte][]KV, error) {
	it, err := d.NewIterator(nil, false)
	if err != nil {
		return nil, err
	}
	defer it.Close()
	out := map[byte][]KV{}
	for ok := it.First(); ok; ok = it.Next() {
		k := append([]byte(nil), it.Key()...)
		v, err := it.Value()
		if err != nil {
			return nil, err
		}
		if len(k) == 0 {
			continue
		}
		out[k[0]] = append(out[k[0]], KV{k, append([]byte(nil), v...)})
	}
	return out, nil
}

// BucketName is juno's name of a bucket byte.
func BucketName(b byte) string { return db.Bucket(b).String() }

// DumpDiff is the difference of one bucket between two dumps.
type DumpDiff struct {
	Bucket   byte
	OnlyA    []KV // keys only in a
	OnlyB    []KV
	Changed  []KV // keys in both with different values (value of a)
	ChangedB []KV // the same keys with the value of b
}

func (d *DumpDiff) String() string {
	show := func(l []KV) string {
		if len(l) == 0 {
			return "0"
		}
		return fmt.Sprintf("%d (e.g. key %s value %s)", len(l), hex.EncodeToString(l[0].K), short(l[0].V))
	}
	ch := show(d.Changed)
	if len(d.ChangedB) > 0 {
		ch += " vs " + short(d.ChangedB[0].V)
	}
	return fmt.Sprintf("bucket %s: only in first %s, only in second %s, different value %s", BucketName(d.Bucket), show(d.OnlyA), show(d.OnlyB), ch)
}

func short(v []byte) string {
	if len(v) > 200 {
		return hex.EncodeToString(v[:200]) + fmt.Sprintf("..(%d bytes)", len(v))
	}
	return hex.EncodeToString(v)
}

// DiffDumps compares two dumps bucket by bucket (buckets in byte order).
func DiffDumps(a, b map[byte][]KV) []DumpDiff {
	bs := map[byte]bool{}
	for k := range a {
		bs[k] = true
	}
	for k := range b {
		bs[k] = true
	}
	keys := make([]int, 0, len(bs))
	for k := range bs {
		keys = append(keys, int(k))
	}
	sort.Ints(keys)
	var out []DumpDiff
	for _, bk := range keys {
		la, lb := a[byte(bk)], b[byte(bk)]
		d := DumpDiff{Bucket: byte(bk)}
		i, j := 0, 0
		for i < len(la) || j < len(lb) {
			switch {
			case j >= len(lb) || (i < len(la) && bytes.Compare(la[i].K, lb[j].K) < 0):
				d.OnlyA = append(d.OnlyA, la[i])
				i++
			case i >= len(la) || bytes.Compare(la[i].K, lb[j].K) > 0:
				d.OnlyB = append(d.OnlyB, lb[j])
				j++
			default:
				if !bytes.Equal(la[i].V, lb[j].V) {
					d.Changed = append(d.Changed, la[i])
					d.ChangedB = append(d.ChangedB, lb[j])
				}
				i++
				j++
			}
		}
		if len(d.OnlyA)+len(d.OnlyB)+len(d.Changed) > 0 {
			out = append(out, d)
		}
	}
	return out
}

// DumpSize is the number of entries of a dump.
func DumpSize(a map[byte][]KV) int {
	n := 0
	for _, l := range a {
		n += len(l)
	}
	return n
}

// IsTrieLeafKey tells whether a key of one of the new backend's trie buckets addresses a leaf node:
// ContractTrieStorage = bucket, owner(32), node type (1 = non-leaf, 2 = leaf), encoded path;
// ContractTrieContract / ClassTrie = bucket, node type, encoded path.
func IsTrieLeafKey(k []byte) bool {
	if len(k) == 0 {
		return false
	}
	switch db.Bucket(k[0]) {
	case db.ContractTrieStorage:
		return len(k) > 34 && k[33] == 2
	case db.ContractTrieContract, db.ClassTrie:
		return len(k) > 2 && k[1] == 2
	}
	return false
}

// ---------- decoding the database into the families of C04.Model ----------

func hexBE(b []byte) string {
	s := strings.TrimLeft(hex.EncodeToString(b), "0")
	if s == "" {
		return "0"
	}
	return s
}

func u64(b []byte) uint64 { return binary.BigEndian.Uint64(b) }

// IsSysKey: the 32-byte address is one of the system contracts 0x1 / 0x2.
func IsSysKey(addr []byte) bool {
	v := new(big.Int).SetBytes(addr)
	return v.IsUint64() && (v.Uint64() == 1 || v.Uint64() == 2)
}

// ModelFamilies decodes the node's database into the text the C04 oracle prints after "d <family> ":
// entries sorted by key, "k.k=v" joined by ',', '-' when empty. The system contracts 0x1 / 0x2 are part
// of the models and decoded like every other contract.
func ModelFamilies(n *Node) (map[string]string, error) {
	dump, err := DumpDB(n.DB)
	if err != nil {
		return nil, err
	}
	out := map[string]string{}
	join := func(l []string) string {
		if len(l) == 0 {
			return "-"
		}
		return strings.Join(l, ",")
	}
	bucket := func(b db.Bucket) []KV { return dump[byte(b)] }
	hb := [3]db.Bucket{db.ContractStorageHistory, db.ContractNonceHistory, db.ContractClassHashHistory}
	if !n.NewState {
		hb = [3]db.Bucket{db.DeprecatedContractStorageHistory, db.DeprecatedContractNonceHistory, db.DeprecatedContractClassHashHistory}
	}
	var l []string
	for _, e := range bucket(hb[0]) {
		k := e.K[1:]
		if len(k) != 72 {
			return nil, fmt.Errorf("storage history key of %d bytes", len(k))
		}
		l = append(l, hexBE(k[:32])+"."+hexBE(k[32:64])+"."+hexBE(k[64:])+"="+hexBE(e.V))
	}
	out["lstore"] = join(l)
	for i, name := range []string{"lnonce", "lclass"} {
		l = nil
		for _, e := range bucket(hb[i+1]) {
			k := e.K[1:]
			if len(k) != 40 {
				return nil, fmt.Errorf("%s history key of %d bytes", name, len(k))
			}
			l = append(l, hexBE(k[:32])+"."+hexBE(k[32:])+"="+hexBE(e.V))
		}
		out[name] = join(l)
	}
	l = nil
	if n.NewState {
		for _, e := range bucket(db.Contract) {
			if len(e.V) < 8 {
				continue
			}
			l = append(l, hexBE(e.K[1:])+"="+hexBE(e.V[len(e.V)-8:]))
		}
	} else {
		for _, e := range bucket(db.ContractDeploymentHeight) {
			l = append(l, hexBE(e.K[1:])+"="+hexBE(e.V))
		}
	}
	out["dh"] = join(l)
	l = nil
	for _, e := range bucket(db.Class) {
		// the record is the CBOR byte string of DeclaredClassDefinition.MarshalBinary (At(8) ++ class)
		dc, err := core.GetClass(n.DB, new(felt.Felt).SetBytes(e.K[1:]))
		if err != nil {
			return nil, fmt.Errorf("class record: %w", err)
		}
		l = append(l, hexBE(e.K[1:])+"="+U(dc.At))
	}
	out["decl"] = join(l)
	l = nil
	var lt, lu, lc []string
	for _, e := range bucket(db.BlockHeadersByNumber) {
		num := u64(e.K[1:])
		h, err := core.GetBlockHeaderHashByNumber(n.DB, num)
		if err != nil {
			return nil, err
		}
		l = append(l, U(num)+"="+Hex(h))
	}
	out["hdr"] = join(l)
	l = nil
	for _, e := range bucket(db.BlockHeaderNumbersByHash) {
		l = append(l, hexBE(e.K[1:])+"="+hexBE(e.V))
	}
	out["num"] = join(l)
	for _, e := range bucket(db.BlockTransactions) {
		// the key is the CBOR encoding of the block number (core.BlockTransactionsBucket)
		var num uint64
		if err := encoder.Unmarshal(e.K[1:], &num); err != nil {
			return nil, fmt.Errorf("block transactions key: %w", err)
		}
		hs, err := core.GetTransactionHashesByBlockNumber(n.DB, num)
		if err != nil {
			return nil, err
		}
		p := make([]string, len(hs))
		for i := range hs {
			p[i] = Hex(&hs[i])
		}
		v := "_"
		if len(p) > 0 {
			v = strings.Join(p, "+")
		}
		lt = append(lt, U(num)+"="+v)
	}
	if len(lt) > 23 { // CBOR keys beyond 23 are longer and no longer sort numerically
		sort.Slice(lt, func(i, j int) bool {
			a, _ := strconv.ParseUint(strings.SplitN(lt[i], "=", 2)[0], 16, 64)
			b, _ := strconv.ParseUint(strings.SplitN(lt[j], "=", 2)[0], 16, 64)
			return a < b
		})
	}
	out["txs"] = join(lt)
	l = nil
	for _, e := range bucket(db.TransactionBlockNumbersAndIndicesByHash) {
		if len(e.V) < 16 {
			return nil, errors.New("tx index value shorter than 16 bytes")
		}
		l = append(l, hexBE(e.K[1:])+"="+hexBE(e.V[:8])+"."+hexBE(e.V[8:16]))
	}
	out["txidx"] = join(l)
	l = nil
	for _, e := range bucket(db.L1HandlerTxnHashByMsgHash) {
		l = append(l, hexBE(e.K[1:])+"="+hexBE(e.V))
	}
	out["l1"] = join(l)
	for _, e := range bucket(db.StateUpdatesByBlockNumber) {
		lu = append(lu, hexBE(e.K[1:])+"=1")
	}
	out["upd"] = join(lu)
	for _, e := range bucket(db.BlockCommitments) {
		lc = append(lc, hexBE(e.K[1:])+"=1")
	}
	out["commit"] = join(lc)
	l = nil
	for _, e := range bucket(db.ClassCasmHashMetadata) {
		// declaredAt(8) casmHashV2(32) migratedFlag(1) [migratedAt(8)] v1Flag(1) [v1(32)]
		if len(e.V) < 42 {
			return nil, errors.New("casm metadata shorter than 42 bytes")
		}
		mig, off := "0", 41
		if e.V[40] != 0 {
			if len(e.V) < 50 {
				return nil, errors.New("casm metadata: migratedAt missing")
			}
			mig, off = hexBE(e.V[41:49]), 49
		}
		v1 := "-"
		if e.V[off] != 0 {
			if len(e.V) < off+33 {
				return nil, errors.New("casm metadata: casmHashV1 missing")
			}
			v1 = hexBE(e.V[off+1 : off+33])
		}
		l = append(l, hexBE(e.K[1:])+"="+hexBE(e.V[:8])+"."+mig+"."+v1+"."+hexBE(e.V[8:40]))
	}
	out["casm"] = join(l)
	return out, nil
}

// ModelFamilyNames in the order the oracle prints them.
var ModelFamilyNames = []string{"lstore", "lnonce", "lclass", "dh", "decl", "hdr", "num", "txs", "txidx", "l1", "upd", "commit", "casm"}

// NormaliseLegacyTrieNodes strips a serialisation artefact of core/trie (legacy backend): Node.
// UnmarshalBinary allocates zero LeftHash / RightHash even when the record carries none, so a node that
// was read, modified and written again ends with 64 zero bytes that a freshly created node lacks. Both
// records decode to the same Node (UnmarshalBinary yields zero hashes either way; the fields only serve
// proof verification), so the difference is not observable. Only records longer than value(32)+64 whose
// last 64 bytes are all zero are touched; genuine child hashes are never zero. Returns how many.
func NormaliseLegacyTrieNodes(dump map[byte][]KV) int {
	n := 0
	for _, b := range []db.Bucket{db.StateTrie, db.ClassesTrie, db.ContractStorage} {
		l := dump[byte(b)]
		for i := range l {
			v := l[i].V
			if len(v) <= 96 {
				continue
			}
			zero := true
			for _, x := range v[len(v)-64:] {
				zero = zero && x == 0
			}
			if zero {
				l[i].V = v[:len(v)-64]
				n++
			}
		}
	}
	return n
}
