package statehist

import (
	"errors"
	"strings"

	"github.com/NethermindEth/juno/blockchain"
	"github.com/NethermindEth/juno/core"
	"github.com/NethermindEth/juno/core/felt"
	"github.com/NethermindEth/juno/db"
)

// How a state reader is obtained.
type How int

const (
	ByNumber How = iota
	ByHash
	Head
)

func (h How) String() string {
	switch h {
	case ByNumber:
		return "bynumber"
	case ByHash:
		return "byhash"
	}
	return "head"
}

// NotFound is the token of db.ErrKeyNotFound.
const NotFound = "-"

// OpenNotFound is the token of every query when the state reader itself cannot be opened because of
// db.ErrKeyNotFound (no such block / empty chain).
const OpenNotFound = "err:open:key-not-found"

// ErrToken canonicalises an error: "-" for db.ErrKeyNotFound (errors.Is), "err:<short>" otherwise.
func ErrToken(err error) string {
	if errors.Is(err, db.ErrKeyNotFound) {
		return NotFound
	}
	s := err.Error()
	if len(s) > 48 {
		s = s[:48]
	}
	s = strings.Map(func(r rune) rune {
		if r == ' ' || r == '\n' || r == '\t' {
			return '_'
		}
		return r
	}, s)
	return "err:" + s
}

// Token canonicalises one (value, error) answer.
func Token(v *felt.Felt, err error) string {
	if err != nil {
		return ErrToken(err)
	}
	return Hex(v)
}

// IsErrToken tells whether a token stands for an unexpected error.
func IsErrToken(t string) bool { return strings.HasPrefix(t, "err:") }

// ReadTokens asks a state reader every query of the universe (universe order) and canonicalises the
// answers. headComposite applies the documented head rule (rpc/v10/storage.go): a head storage read of
// a missing contract returns 0,nil, so a zero value is followed by a ContractClassHash probe and
// ErrKeyNotFound there makes the answer "not found".
func ReadTokens(sr core.StateReader, u *Universe, headComposite bool) []string {
	qs := u.Queries()
	out := make([]string, 0, len(qs))
	for _, q := range qs {
		switch q.Kind {
		case "class":
			v, err := sr.ContractClassHash(Felt(q.A))
			out = append(out, Token(&v, err))
		case "nonce":
			v, err := sr.ContractNonce(Felt(q.A))
			out = append(out, Token(&v, err))
		case "slot":
			a := Felt(q.A)
			v, err := sr.ContractStorage(a, Felt(q.K))
			t := Token(&v, err)
			if headComposite && err == nil && v.IsZero() {
				if _, cerr := sr.ContractClassHash(a); cerr != nil {
					t = ErrToken(cerr)
				}
			}
			out = append(out, t)
		case "decl":
			dc, err := sr.Class(Felt(q.A))
			if err != nil {
				out = append(out, ErrToken(err))
			} else if dc == nil {
				out = append(out, "err:nil-class")
			} else {
				out = append(out, U(dc.At))
			}
		}
	}
	return out
}

// Observe opens the state of bc the requested way (block number n, block hash, or head), reads every
// query of the universe and closes the reader. A reader that cannot be opened yields the same
// "err:open:..." (or "-" for ErrKeyNotFound) token for every query.
func Observe(bc *blockchain.Blockchain, u *Universe, how How, n uint64, hash *felt.Felt) (tokens []string) {
	var (
		sr     core.StateReader
		closer func() error
		err    error
	)
	defer func() {
		if r := recover(); r != nil {
			tokens = fill(u, "err:panic")
		}
	}()
	switch how {
	case ByNumber:
		sr, closer, err = bc.StateAtBlockNumber(n)
	case ByHash:
		sr, closer, err = bc.StateAtBlockHash(hash)
	default:
		sr, closer, err = bc.HeadState()
	}
	if err != nil {
		t := ErrToken(err)
		if t != NotFound {
			t = "err:open:" + strings.TrimPrefix(t, "err:")
		} else {
			t = OpenNotFound
		}
		return fill(u, t)
	}
	defer func() {
		if cerr := closer(); cerr != nil && tokens != nil {
			tokens = fill(u, "err:close")
		}
	}()
	return ReadTokens(sr, u, how == Head)
}

// ObserveCasm opens the state the requested way and asks CompiledClassHash for every listed class hash
// (the head readers answer ClassCasmHashMetadata.CasmHash, the history readers CasmHashAt(block)).
func ObserveCasm(bc *blockchain.Blockchain, classes []string, how How, n uint64, hash *felt.Felt) (tokens []string) {
	all := func(t string) []string {
		out := make([]string, len(classes))
		for i := range out {
			out[i] = t
		}
		return out
	}
	var (
		sr     core.StateReader
		closer func() error
		err    error
	)
	defer func() {
		if r := recover(); r != nil {
			tokens = all("err:panic")
		}
	}()
	switch how {
	case ByNumber:
		sr, closer, err = bc.StateAtBlockNumber(n)
	case ByHash:
		sr, closer, err = bc.StateAtBlockHash(hash)
	default:
		sr, closer, err = bc.HeadState()
	}
	if err != nil {
		t := ErrToken(err)
		if t != NotFound {
			return all("err:open:" + strings.TrimPrefix(t, "err:"))
		}
		return all(OpenNotFound)
	}
	defer func() {
		if cerr := closer(); cerr != nil && tokens != nil {
			tokens = all("err:close")
		}
	}()
	for _, h := range classes {
		sh := felt.SierraClassHash(*Felt(h))
		v, err := sr.CompiledClassHash(&sh)
		tokens = append(tokens, Token((*felt.Felt)(&v), err))
	}
	return tokens
}

func fill(u *Universe, t string) []string {
	out := make([]string, len(u.Queries()))
	for i := range out {
		out[i] = t
	}
	return out
}

// Mismatch names how an observed token differs from the expected one: "" when equal, else
// "error" | "notfound-vs-value" | "value-vs-notfound" | "wrong-value".
func Mismatch(got, want string) string {
	switch {
	case got == want:
		return ""
	case IsErrToken(got):
		return "error"
	case got == NotFound:
		return "notfound-vs-value"
	case want == NotFound:
		return "value-vs-notfound"
	}
	return "wrong-value"
}
