package statehist

import (
	"fmt"
	"strings"

	"verifharness/hx"
)

// Generators for the system-contract and the Sierra / CASM families of C03 (both run through the extracted
// model), and the optional deploy+replace probe (outside the Coq model, Go-side truth only).

// ProbeFinding is one disagreement found by a probe.
type ProbeFinding struct {
	Class string
	What  string
	Ops   []Op // the (unshrunk) op sequence
}

// SlotClass names a wrong storage answer. The known symptom of the new backend (a head read of a
// zeroed slot answers the old value while the by-number read at the head block is right) keeps the
// one narrow class it has in the model-checked run, whatever the prefix.
func SlotClass(prefix, backend string, how How, mm, truth string, byNumberAtHeadRight bool) string {
	if backend == "new" && how == Head && mm == "wrong-value" && truth == "0" && byNumberAtHeadRight {
		return "new:head:slot:zeroed-slot-reads-stale-value"
	}
	return fmt.Sprintf("%s%s:%s:slot:%s", prefix, backend, how, mm)
}

// SysUniverse: the two system contracts (0x1 block-hash store, 0x2 compression counter: juno creates
// them with class hash 0 on their first storage write and removes them when their storage is empty) and
// one ordinary contract.
func SysUniverse() *Universe {
	return &Universe{Addrs: []string{"1", "2", "64"}, Slots: []string{"1", "2", "3"}}
}

// sysGenLevel is what the generator tracks per block of its abstract chain: the slot values after the
// block, whether 0x64 is deployed, and - to predict the legacy backend's failing reverts - which system
// contracts have a record and at which height it was created.
type sysGenLevel struct {
	slot    map[string]string // "addr:slot" -> non-zero value
	dep64   bool
	created map[string]int // system address -> block that created its record (legacy: never removed by a Store)
}

func (l *sysGenLevel) clone() *sysGenLevel {
	c := &sysGenLevel{slot: map[string]string{}, dep64: l.dep64, created: map[string]int{}}
	for k, v := range l.slot {
		c.slot[k] = v
	}
	for k, v := range l.created {
		c.created[k] = v
	}
	return c
}

func (l *sysGenLevel) empty(a string) bool {
	for k := range l.slot {
		if strings.HasPrefix(k, a+":") {
			return false
		}
	}
	return true
}

// SysGenInfo says what a generated system-contract case contains (histogram labels).
type SysGenInfo struct {
	Guarded bool     // every block leaves the system contracts it writes to non-empty (C03.Model.sys_guard)
	Labels  []string // per shape
}

// GenSysCase generates stores and reverts over SysUniverse in every shape the system contracts know:
// creation by a first write, growth, overwrites, zero writes that leave other slots, zero writes that EMPTY
// the contract, zero writes to a contract that does not exist, re-creation after an emptying, reverts across
// the creation / the emptying / the re-creation. guarded = true never empties a contract (the shapes for
// which C03_new / C03_old hold); legacy = predict the legacy backend's failing reverts so that the abstract
// chain stays in step.
func GenSysCase(r *hx.RNG, u *Universe, guarded, legacy bool) ([]Op, *SysGenInfo) {
	info := &SysGenInfo{Guarded: true}
	lab := func(l string) { info.Labels = append(info.Labels, "sys:"+l) }
	var ops []Op
	stack := []*sysGenLevel{}
	cur := func() *sysGenLevel {
		if len(stack) == 0 {
			return &sysGenLevel{slot: map[string]string{}, created: map[string]int{}}
		}
		return stack[len(stack)-1]
	}
	n := 3 + r.Intn(9)
	vals := []string{"1", "2", "3", "deadbeef"}
	sys := []string{"1", "2"}
	for len(ops) < n {
		if len(stack) > 0 && r.Chance(30) {
			k := 1 + r.Intn(3)
			if r.Chance(15) {
				k = len(stack)
			}
			for ; k > 0 && len(stack) > 0 && len(ops) < n; k-- {
				ops = append(ops, Op{Revert: true})
				top, h := stack[len(stack)-1], len(stack)-1
				if legacy {
					// purgesystemContracts + old-root check: a contract that exists with an empty storage once
					// the block is undone makes the revert fail unless this block created it
					below := &sysGenLevel{slot: map[string]string{}}
					if h > 0 {
						below = stack[h-1]
					}
					fails := false
					for _, a := range sys {
						if c, ok := top.created[a]; ok && below.empty(a) && c != h {
							fails = true
						}
					}
					if fails {
						lab("legacy-revert-predicted-to-fail")
						break
					}
				}
				lab("revert")
				stack = stack[:h]
			}
			continue
		}
		c := cur().clone()
		h := len(stack)
		d := Diff{}
		if !c.dep64 && r.Chance(40) {
			d.Deploy = append(d.Deploy, AV{A: "64", V: "a"})
			c.dep64 = true
		}
		if c.dep64 && r.Chance(30) {
			k := u.Slots[r.Intn(len(u.Slots))]
			d.Store = append(d.Store, AKV{A: "64", K: k, V: vals[r.Intn(len(vals))]})
		}
		for _, a := range sys {
			if !r.Chance(55) {
				continue
			}
			wasEmpty := cur().empty(a)
			var mine []int
			for _, k := range u.Slots {
				old, has := c.slot[a+":"+k]
				p := 35
				if has {
					p = 55
				}
				if !r.Chance(p) {
					continue
				}
				v := vals[r.Intn(len(vals))]
				switch {
				case has && r.Chance(55):
					v = "0"
				case has && r.Chance(20):
					v = old
				case !has && r.Chance(15):
					v = "0"
				}
				mine = append(mine, len(d.Store))
				d.Store = append(d.Store, AKV{A: a, K: k, V: v})
			}
			if len(mine) == 0 {
				continue
			}
			apply := func() {
				for _, i := range mine {
					e := d.Store[i]
					if IsZeroHex(e.V) {
						delete(c.slot, e.A+":"+e.K)
					} else {
						c.slot[e.A+":"+e.K] = e.V
					}
				}
			}
			apply()
			if c.empty(a) && guarded {
				// keep the contract alive: the last write of this address becomes non-zero
				d.Store[mine[len(mine)-1]].V = vals[r.Intn(len(vals))]
				apply()
			}
			switch {
			case c.empty(a) && wasEmpty:
				lab("zero-writes-to-missing-contract")
				info.Guarded = false
			case c.empty(a):
				lab("emptied")
				info.Guarded = false
			case wasEmpty:
				if _, ok := cur().created[a]; ok || everWritten(ops, a) {
					lab("created-again")
				} else {
					lab("created")
				}
			default:
				lab("written")
			}
			if _, ok := c.created[a]; !ok {
				c.created[a] = h
			}
			if !legacy && c.empty(a) {
				delete(c.created, a) // the new backend removes the record in Update
			}
		}
		shuffle(r, d.Store)
		stack = append(stack, c)
		ops = append(ops, Op{Block: &BlockSpec{Diff: d, Salt: uint64(r.Intn(3))}})
	}
	return ops, info
}

func everWritten(ops []Op, a string) bool {
	for _, o := range ops {
		if o.Revert {
			continue
		}
		for _, e := range o.Block.Diff.Store {
			if e.A == a {
				return true
			}
		}
	}
	return false
}

// ---------- Sierra declarations and CASM-hash migrations (C03.Model casm machine) ----------

// GenCasmCase generates stores and reverts whose blocks declare Sierra classes (below and from protocol
// 0.14.1) and migrate the compiled class hash of classes declared under the old hash. ids lists the
// Sierra class ids used.
func GenCasmCase(r *hx.RNG) (ops []Op, ids []uint64) {
	type lvl struct{ reg *Registry }
	stack := []lvl{}
	reg := func() *Registry {
		if len(stack) == 0 {
			return NewRegistry()
		}
		return stack[len(stack)-1].reg
	}
	next := uint64(1) // ids are never reused, also not after a revert (a class hash names one definition)
	n := 3 + r.Intn(8)
	preV014Below := 0 // blocks at heights below this carry PreV014Version
	if r.Chance(30) {
		preV014Below = 1 + r.Intn(3)
	}
	for len(ops) < n {
		if len(stack) > 0 && r.Chance(28) {
			k := 1 + r.Intn(3)
			if r.Chance(15) {
				k = len(stack)
			}
			for ; k > 0 && len(stack) > 0 && len(ops) < n; k-- {
				stack = stack[:len(stack)-1]
				ops = append(ops, Op{Revert: true})
			}
			continue
		}
		g := reg().Clone()
		spec := &BlockSpec{Version: "0.14.0", Salt: uint64(r.Intn(3))}
		v1 := true
		if len(stack) < preV014Below {
			spec.Version = PreV014Version // below the crossing into 0.14.0 (other state commitment formula while no Sierra class exists)
		} else if r.Chance(50) {
			spec.Version, v1 = "0.14.1", false
		}
		if !v1 {
			for _, id := range sortedIDs(g.Sierra) {
				if inf := g.Sierra[id]; inf.V1 && !inf.Migrated && r.Chance(50) {
					spec.Migrate = append(spec.Migrate, SierraDecl{ID: id, Casm: SierraCasmV2(id)})
					inf.Migrated = true
					g.Sierra[id] = inf
				}
			}
		}
		for k := r.Intn(3); k > 0; k-- {
			id := next
			next++
			ids = append(ids, id)
			spec.DeclareV1 = append(spec.DeclareV1, SierraDecl{ID: id, Casm: U(0xca5000 + id)})
			g.Sierra[id] = SierraInfo{V1: v1}
		}
		stack = append(stack, lvl{g})
		ops = append(ops, Op{Block: spec})
	}
	return ops, ids
}

// CasmOpsLine is the oracle encoding of the ops for the casm machine: "R" | "S <CasmLine>" joined by ';'.
func CasmOpsLine(ops []Op) string {
	p := make([]string, len(ops))
	for i, o := range ops {
		if o.Revert {
			p[i] = "R"
		} else {
			p[i] = "S " + o.Block.CasmLine()
		}
	}
	return strings.Join(p, ";")
}

// DeployReplaceOps: one block deploys 0x64 with class a AND lists it under replaced classes with
// class b (optionally on top of an empty block so the block is not genesis).
func DeployReplaceOps(atGenesis bool) []Op {
	ops := []Op{}
	if !atGenesis {
		ops = append(ops, Op{Block: &BlockSpec{}})
	}
	return append(ops, Op{Block: &BlockSpec{Diff: Diff{Deploy: []AV{{"64", "a"}}, Replace: []AV{{"64", "b"}}}}})
}

// RunDeployReplace stores DeployReplaceOps and compares ContractClassHash of 0x64 by number / by hash at
// that block with the head answer. Class "<backend>:<how>:class:deploy+replace-same-block".
func RunDeployReplace(ar *Arena, newState bool, ops []Op) (fs []ProbeFinding, note string) {
	backend := BackendName(newState)
	p := ar.NewPair(newState)
	defer p.Close()
	for i := range ops {
		if out := p.Apply(&ops[i]); !out.OK {
			return nil, fmt.Sprintf("%s backend rejects the block (%s)", backend, out.Err())
		}
	}
	u := &Universe{Addrs: []string{"64"}}
	n := uint64(len(ops) - 1)
	head := Observe(p.Fol.BC, u, Head, 0, nil)[0]
	note = fmt.Sprintf("%s: head=%s", backend, head)
	for _, how := range []How{ByNumber, ByHash} {
		got := Observe(p.Fol.BC, u, how, n, p.Chain[n].Block.Hash)[0]
		note += fmt.Sprintf(" %s=%s", how, got)
		if got != head && len(fs) == 0 { // one finding per root cause: by hash only when by number is right
			fs = append(fs, ProbeFinding{
				Class: fmt.Sprintf("%s:%s:class:deploy+replace-same-block", backend, how),
				What: fmt.Sprintf("%s backend: block %d deploys 0x64 with class a and replaces its class by b: ContractClassHash %s at that block = %s, head = %s; ops: %s",
					backend, n, how, got, head, OpsLine(ops)),
				Ops: ops})
		}
	}
	return fs, note
}
