package statehist

import (
	"fmt"

	"verifharness/hx"
)

// Optional probes outside the Coq model (C03 item 7). They use a Go-side truth only.

// ProbeFinding is one disagreement found by a probe.
type ProbeFinding struct {
	Class string
	What  string
	Ops   []Op // the (unshrunk) op sequence
}

// SlotClass names a wrong storage answer. The known symptom of the new backend (a head read of a
// zeroed slot answers the old value while the by-number read at the head block is right) keeps the
// one narrow class it has in the model-checked run, whatever the prefix.
func SlotClass(prefix, backend string, how How, mm, truth string, byNumberAtHeadRight bool) string {
	if backend == "new" && how == Head && mm == "wrong-value" && truth == "0" && byNumberAtHeadRight {
		return "new:head:slot:zeroed-slot-reads-stale-value"
	}
	return fmt.Sprintf("%s%s:%s:slot:%s", prefix, backend, how, mm)
}

// SysUniverse: the two system contracts (0x1 block-hash store, 0x2 compression counter: juno creates
// them with class hash 0 on their first storage write) and one ordinary contract.
func SysUniverse() *Universe {
	return &Universe{Addrs: []string{"1", "2", "64"}, Slots: []string{"1", "2", "3", "a"}}
}

func isSys(a string) bool { return a == "1" || a == "2" }

// sysLevel is the Go truth after one block: slot values and which system contracts were ever
// written up to and including that block (on the current chain).
type sysLevel struct {
	abs  *Abs
	seen map[string]bool
}

func (l *sysLevel) clone() *sysLevel {
	c := &sysLevel{abs: l.abs.Clone(), seen: map[string]bool{}}
	for k, v := range l.seen {
		c.seen[k] = v
	}
	return c
}

// GenSysCase generates stores (non-zero writes only, so that the legacy backend reverts every block)
// and reverts over SysUniverse.
func GenSysCase(r *hx.RNG, u *Universe) []Op {
	var ops []Op
	var stack []*sysLevel
	n := 3 + r.Intn(8)
	vals := []string{"1", "2", "3", "deadbeef"}
	for len(ops) < n {
		if len(stack) > 0 && r.Chance(28) {
			k := 1 + r.Intn(2)
			if r.Chance(15) {
				k = len(stack)
			}
			for ; k > 0 && len(stack) > 0 && len(ops) < n; k-- {
				stack = stack[:len(stack)-1]
				ops = append(ops, Op{Revert: true})
			}
			continue
		}
		cur := &sysLevel{abs: NewAbs(), seen: map[string]bool{}}
		if len(stack) > 0 {
			cur = stack[len(stack)-1].clone()
		}
		d := Diff{}
		if _, ok := cur.abs.Class["64"]; !ok && r.Chance(50) {
			d.Deploy = append(d.Deploy, AV{A: "64", V: "a"})
		}
		for _, a := range u.Addrs {
			_, dep := cur.abs.Class[a]
			if !isSys(a) && !dep && len(d.Deploy) == 0 {
				continue
			}
			for _, k := range u.Slots {
				p := 20
				if isSys(a) {
					p = 30
				}
				if r.Chance(p) {
					d.Store = append(d.Store, AKV{A: a, K: k, V: vals[r.Intn(len(vals))]})
				}
			}
		}
		for _, e := range d.Deploy {
			cur.abs.Class[e.A], cur.abs.Nonce[e.A] = e.V, "0"
		}
		for _, e := range d.Store {
			cur.abs.Slot[e.A+":"+e.K] = e.V
			if isSys(e.A) {
				cur.seen[e.A] = true
			}
		}
		stack = append(stack, cur)
		ops = append(ops, Op{Block: &BlockSpec{Diff: d, Salt: uint64(r.Intn(3))}})
	}
	return ops
}

// RunSysCase executes the ops on a pair and compares every storage read (by number, by hash, head)
// with the Go truth. A system contract never written up to a block may read "not found" or zero there;
// once written, its slots read their value (zero when unset). answers counts the compared tokens.
func RunSysCase(ar *Arena, newState bool, u *Universe, ops []Op) (fs []ProbeFinding, answers int) {
	backend := BackendName(newState)
	p := ar.NewPair(newState)
	defer p.Close()
	add := func(class, what string) {
		for _, f := range fs {
			if f.Class == class {
				return
			}
		}
		fs = append(fs, ProbeFinding{Class: class, What: what, Ops: ops})
	}
	var stack []*sysLevel
	qs := u.Queries()
	expect := func(l *sysLevel, q Query) (want string, alsoNotFound bool) {
		if isSys(q.A) {
			return l.abs.SlotAt(q.A, q.K), !l.seen[q.A]
		}
		if _, ok := l.abs.Class[q.A]; !ok {
			return NotFound, false
		}
		return l.abs.SlotAt(q.A, q.K), false
	}
	for i := range ops {
		out := p.Apply(&ops[i])
		if !out.OK {
			kind := "store-failed"
			if ops[i].Revert {
				kind = "revert-failed"
			}
			add("syscontract:"+backend+":"+kind, fmt.Sprintf("%s backend: op %d failed: %s in: %s", backend, i, out.Err(), OpsLine(ops[:i+1])))
			return fs, answers
		}
		if ops[i].Revert {
			stack = stack[:len(stack)-1]
		} else {
			cur := &sysLevel{abs: NewAbs(), seen: map[string]bool{}}
			if len(stack) > 0 {
				cur = stack[len(stack)-1].clone()
			}
			d := &ops[i].Block.Diff
			for _, e := range d.Deploy {
				cur.abs.Class[e.A], cur.abs.Nonce[e.A] = e.V, "0"
			}
			for _, e := range d.Store {
				if IsZeroHex(e.V) {
					delete(cur.abs.Slot, e.A+":"+e.K)
				} else {
					cur.abs.Slot[e.A+":"+e.K] = e.V
				}
				if isSys(e.A) {
					cur.seen[e.A] = true
				}
			}
			stack = append(stack, cur)
		}
		if !(ops[i].Revert || i == len(ops)-1 || i%3 == 2) {
			continue
		}
		if int(p.Height()) != len(stack) {
			add("syscontract:"+backend+":height", fmt.Sprintf("%s backend: %d blocks, expected %d after: %s", backend, p.Height(), len(stack), OpsLine(ops[:i+1])))
			return fs, answers
		}
		var byNum []string
		check := func(how How, n int, got []string) {
			for j, q := range qs {
				if q.Kind != "slot" {
					continue
				}
				answers++
				want, lenient := expect(stack[n], q)
				if got[j] == want || (lenient && (got[j] == NotFound || got[j] == "0")) {
					continue
				}
				mm := Mismatch(got[j], want)
				right := how == Head && byNum != nil && byNum[j] == want
				add(SlotClass("syscontract:", backend, how, mm, want, right),
					fmt.Sprintf("%s backend, %s %s at block %d: juno answers %s, expected %s (system contracts 0x1/0x2 exist from their first write) after: %s",
						backend, how, q, n, got[j], want, OpsLine(ops[:i+1])))
			}
		}
		for n := range stack {
			byNum = Observe(p.Fol.BC, u, ByNumber, uint64(n), nil)
			check(ByNumber, n, byNum)
			check(ByHash, n, Observe(p.Fol.BC, u, ByHash, 0, p.Chain[n].Block.Hash))
		}
		if len(stack) > 0 {
			check(Head, len(stack)-1, Observe(p.Fol.BC, u, Head, 0, nil))
		}
	}
	return fs, answers
}

// DeployReplaceOps: one block deploys 0x64 with class a AND lists it under replaced classes with
// class b (optionally on top of an empty block so the block is not genesis).
func DeployReplaceOps(atGenesis bool) []Op {
	ops := []Op{}
	if !atGenesis {
		ops = append(ops, Op{Block: &BlockSpec{}})
	}
	return append(ops, Op{Block: &BlockSpec{Diff: Diff{Deploy: []AV{{"64", "a"}}, Replace: []AV{{"64", "b"}}}}})
}

// RunDeployReplace stores DeployReplaceOps and compares ContractClassHash of 0x64 by number / by hash at
// that block with the head answer. Class "<backend>:<how>:class:deploy+replace-same-block".
func RunDeployReplace(ar *Arena, newState bool, ops []Op) (fs []ProbeFinding, note string) {
	backend := BackendName(newState)
	p := ar.NewPair(newState)
	defer p.Close()
	for i := range ops {
		if out := p.Apply(&ops[i]); !out.OK {
			return nil, fmt.Sprintf("%s backend rejects the block (%s)", backend, out.Err())
		}
	}
	u := &Universe{Addrs: []string{"64"}}
	n := uint64(len(ops) - 1)
	head := Observe(p.Fol.BC, u, Head, 0, nil)[0]
	note = fmt.Sprintf("%s: head=%s", backend, head)
	for _, how := range []How{ByNumber, ByHash} {
		got := Observe(p.Fol.BC, u, how, n, p.Chain[n].Block.Hash)[0]
		note += fmt.Sprintf(" %s=%s", how, got)
		if got != head && len(fs) == 0 { // one finding per root cause: by hash only when by number is right
			fs = append(fs, ProbeFinding{
				Class: fmt.Sprintf("%s:%s:class:deploy+replace-same-block", backend, how),
				What: fmt.Sprintf("%s backend: block %d deploys 0x64 with class a and replaces its class by b: ContractClassHash %s at that block = %s, head = %s; ops: %s",
					backend, n, how, got, head, OpsLine(ops)),
				Ops: ops})
		}
	}
	return fs, note
}
