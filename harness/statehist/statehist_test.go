package statehist

import (
	"testing"

	"github.com/NethermindEth/juno/blockchain"
	"github.com/NethermindEth/juno/blockchain/networks"
	"github.com/NethermindEth/juno/core"
	"github.com/NethermindEth/juno/core/felt"
	"github.com/NethermindEth/juno/db/memory"
	"github.com/NethermindEth/juno/l1/eth"
)

// The extras of BlockSpec (events, L1 handlers, Sierra declarations, CASM migrations) must produce
// blocks both backends accept through Finalise and SanityCheckNewHeight+Store, and revert cleanly.
func TestExtrasAccepted(t *testing.T) {
	for _, newState := range []bool{true, false} {
		p := NewPair(newState)
		specs := []*BlockSpec{
			{Version: "0.14.0",
				Diff:      Diff{Deploy: []AV{{"64", "a"}}, Store: []AKV{{"64", "1", "5"}}, Decl: []string{"a"}},
				DeclareV1: []SierraDecl{{ID: 1, Casm: "111"}},
				Txs:       [][]Ev{{{From: "64", Keys: []string{"1"}, Data: []string{"2", "3"}}}, {}},
				L1:        []L1Msg{{To: "64", Selector: "5", Nonce: "0", Payload: []string{"abc", "1"}}}},
			{Version: "0.14.1",
				Diff:      Diff{Store: []AKV{{"64", "1", "0"}}},
				Migrate:   []SierraDecl{{ID: 1, Casm: SierraCasmV2(1)}},
				DeclareV1: []SierraDecl{{ID: 2, Casm: "333"}},
				L1:        []L1Msg{{To: "64", Selector: "5", Nonce: "1", Payload: []string{"abc"}}}},
		}
		for i, s := range specs {
			if out := p.Store(s); !out.OK {
				t.Fatalf("newState=%v block %d: %s", newState, i, out.Err())
			}
		}
		sh := felt.SierraClassHash(*SierraHash(1))
		for n, want := range map[uint64]string{0: "111", 1: SierraCasmV2(1)} {
			sr, closer, err := p.Fol.BC.StateAtBlockNumber(n)
			if err != nil {
				t.Fatal(err)
			}
			got, err := sr.CompiledClassHash(&sh)
			closer()
			if err != nil {
				t.Fatalf("newState=%v CompiledClassHash at %d: %v", newState, n, err)
			}
			if Hex((*felt.Felt)(&got)) != want {
				t.Fatalf("newState=%v CompiledClassHash at %d = %s, expected %s", newState, n, Hex((*felt.Felt)(&got)), want)
			}
		}
		tx := L1HandlerTx(&specs[0].L1[0])
		mh := eth.HashFromBytes(tx.MessageHash())
		h, err := p.Fol.BC.L1HandlerTxnHash(&mh)
		if err != nil || !h.Equal(tx.TransactionHash) {
			t.Fatalf("newState=%v L1 handler lookup: %v %s", newState, err, h.String())
		}
		toks := Observe(p.Fol.BC, DefaultUniverse(), ByNumber, 0, nil)
		if toks[0] != "a" {
			t.Fatalf("tokens %v", toks)
		}
		dc := Observe(p.Fol.BC, &Universe{Classes: []string{Hex(SierraHash(1)), Hex(SierraHash(2))}}, Head, 0, nil)
		if dc[0] != "0" || dc[1] != "1" {
			t.Fatalf("sierra declared-at tokens %v", dc)
		}
		for i := 0; i < 2; i++ {
			if out := p.Revert(); !out.OK {
				t.Fatalf("newState=%v revert %d: %s", newState, i, out.Err())
			}
		}
		if p.Height() != 0 {
			t.Fatal("height after reverts")
		}
	}
}

func TestHex(t *testing.T) {
	for _, h := range []string{"0", "1", "a", "deadbeef", BigSlot, BigValue} {
		if Hex(Felt(h)) != h {
			t.Fatalf("%s -> %s", h, Hex(Felt(h)))
		}
	}
}

// Probe, independent of the builder / pair / observation code of this package: plain juno calls only.
// New state backend: slots 2 and 3 of one contract are sibling leaves of the storage trie. Writing one
// of them back to zero (alone, or together with inserting the sibling in the same block) leaves the
// leaf node on disk, and the head reader (StateReader.ContractStorage reads the leaf by path) keeps
// answering the old value. The test only logs what juno answers (it documents the probe; the check
// itself is the c03 harness).
func TestProbeZeroedSlotHeadRead(t *testing.T) {
	f := func(x uint64) *felt.Felt { v := felt.FromUint64[felt.Felt](x); return &v }
	for _, newState := range []bool{true, false} {
		database := memory.New()
		bc := blockchain.New(database, &networks.Sepolia, blockchain.WithNewState(newState))
		addr := f(0x66)
		mkDiff := func() *core.StateDiff {
			return &core.StateDiff{
				StorageDiffs:      map[felt.Felt]map[felt.Felt]*felt.Felt{},
				Nonces:            map[felt.Felt]*felt.Felt{},
				DeployedContracts: map[felt.Felt]*felt.Felt{},
				DeclaredV1Classes: map[felt.Felt]*felt.Felt{},
				ReplacedClasses:   map[felt.Felt]*felt.Felt{},
			}
		}
		add := func(d *core.StateDiff) {
			t.Helper()
			var number uint64
			parent, oldRoot := &felt.Zero, &felt.Zero
			if h, err := bc.HeadsHeader(); err == nil {
				number, parent, oldRoot = h.Number+1, h.Hash, h.GlobalStateRoot
			}
			var rcs []*core.TransactionReceipt
			block := &core.Block{Header: &core.Header{
				ParentHash: parent, Number: number, SequencerAddress: f(1), EventsBloom: core.EventsBloom(rcs),
				L1GasPriceETH: f(1), L1GasPriceSTRK: f(1),
				L1DataGasPrice: &core.GasPrice{PriceInFri: f(1), PriceInWei: f(1)},
				L2GasPrice:     &core.GasPrice{PriceInFri: f(1), PriceInWei: f(1)},
				L1DAMode:       core.Blob, ProtocolVersion: "0.14.0"},
				Transactions: []core.Transaction{}, Receipts: rcs}
			if err := bc.Finalise(block, &core.StateUpdate{OldRoot: oldRoot, StateDiff: d}, nil, nil); err != nil {
				t.Fatalf("newState=%v finalise %d: %v", newState, number, err)
			}
		}
		read := func(b *blockchain.Blockchain, tag string) {
			t.Helper()
			hs, hc, err := b.HeadState()
			if err != nil {
				t.Fatal(err)
			}
			hv, herr := hs.ContractStorage(addr, f(2))
			hc()
			height, _ := b.Height()
			ns, nc, err := b.StateAtBlockNumber(height)
			if err != nil {
				t.Fatal(err)
			}
			nv, nerr := ns.ContractStorage(addr, f(2))
			nc()
			t.Logf("newState=%-5v %-34s height=%d  head slot2=%s (%v)  by-number(%d) slot2=%s (%v)",
				newState, tag, height, hv.String(), herr, height, nv.String(), nerr)
		}
		d0 := mkDiff()
		d0.DeployedContracts[*addr] = f(0xdd)
		d0.StorageDiffs[*addr] = map[felt.Felt]*felt.Felt{*f(2): f(5)}
		add(d0)
		read(bc, "after block 0 (slot2:=5)")
		d1 := mkDiff()
		d1.StorageDiffs[*addr] = map[felt.Felt]*felt.Felt{*f(2): f(0), *f(3): f(1)}
		add(d1)
		read(bc, "after block 1 (slot2:=0, slot3:=1)")
		read(blockchain.New(database, &networks.Sepolia, blockchain.WithNewState(newState)), "same DB, fresh Blockchain")
		d2 := mkDiff()
		d2.StorageDiffs[*addr] = map[felt.Felt]*felt.Felt{*f(1): f(9)}
		add(d2)
		read(bc, "after block 2 (slot1:=9)")
		if err := bc.RevertHead(); err != nil {
			t.Fatal(err)
		}
		read(bc, "after reverting block 2")
		if err := bc.RevertHead(); err != nil {
			t.Fatal(err)
		}
		read(bc, "after reverting block 1 (truth 5)")
		d1b := mkDiff()
		d1b.StorageDiffs[*addr] = map[felt.Felt]*felt.Felt{*f(2): f(0)}
		add(d1b)
		read(bc, "after new block 1 (slot2:=0 only)")
		d2b := mkDiff()
		d2b.StorageDiffs[*addr] = map[felt.Felt]*felt.Felt{*f(2): f(7), *f(3): f(8)}
		add(d2b)
		read(bc, "after block 2 (slot2:=7, slot3:=8)")
		d3 := mkDiff()
		d3.StorageDiffs[*addr] = map[felt.Felt]*felt.Felt{*f(3): f(0)}
		add(d3)
		hs, hc, _ := bc.HeadState()
		v3, _ := hs.ContractStorage(addr, f(3))
		hc()
		t.Logf("newState=%-5v after block 3 (slot3:=0, sibling slot2 stays): head slot3=%s (truth 0)", newState, v3.String())
	}
}
