package statehist

import (
	"testing"
)

// What the two state backends do with the system contract 0x1 once a block writes its last non-zero slot back
// to zero, read through blockchain.Reader on a plain sequencer+follower pair (findings/C03.md, findings/C04.md:
// the replays of the C03_*_sys_refuted / C04_*_sys_refuted witnesses). The test pins the CURRENT behaviour of
// juno; it fails when that behaviour changes (then the models C03.Model / C04.Model have to follow).
func TestSystemContractEmptied(t *testing.T) {
	u := &Universe{Addrs: []string{"1"}, Slots: []string{"1"}} // queries: class(1) nonce(1) slot(1,1)
	st := func(a, k, v string) Op { return Op{Block: &BlockSpec{Diff: Diff{Store: []AKV{{a, k, v}}}}} }
	dep := Op{Block: &BlockSpec{Diff: Diff{Deploy: []AV{{"64", "a"}}}}}
	R := Op{Revert: true}
	eq := func(what string, got, want []string) {
		t.Helper()
		if len(got) != len(want) {
			t.Fatalf("%s: %v, expected %v", what, got, want)
		}
		for i := range got {
			if got[i] != want[i] {
				t.Fatalf("%s: %v, expected %v", what, got, want)
			}
		}
	}
	run := func(newState bool, ops ...Op) (*Pair, []bool) {
		p := NewPair(newState)
		var ok []bool
		for i := range ops {
			ok = append(ok, p.Apply(&ops[i]).OK)
		}
		return p, ok
	}
	roots := map[bool]string{}
	for _, ns := range []bool{true, false} {
		// block 0 deploys 0x64, block 1 sets slot 1 of 0x1 to 5, block 2 writes it back to zero
		p, _ := run(ns, dep, st("1", "1", "5"), st("1", "1", "0"))
		at1 := Observe(p.Fol.BC, u, ByNumber, 1, nil)
		at2 := Observe(p.Fol.BC, u, ByNumber, 2, nil)
		head := Observe(p.Fol.BC, u, Head, 0, nil)
		hh, err := p.Fol.BC.HeadsHeader()
		if err != nil {
			t.Fatal(err)
		}
		roots[ns] = Hex(hh.GlobalStateRoot)
		if ns {
			// new backend: the record is gone, and with it the history of block 1 (truth: class 0, nonce 0, slot 5)
			eq("new by number 1", at1, []string{"-", "-", "-"})
			eq("new by number 2", at2, []string{"-", "-", "-"})
			eq("new head", head, []string{"-", "-", "-"})
		} else {
			// legacy backend: history intact, but the emptied contract keeps existing (class hash 0)
			eq("legacy by number 1", at1, []string{"0", "0", "5"})
			eq("legacy by number 2", at2, []string{"0", "0", "0"})
			eq("legacy head", head, []string{"0", "0", "0"})
		}
		p.Close()

		// reverting the emptying block
		p, ok := run(ns, dep, st("1", "1", "5"), st("1", "1", "0"), R)
		at1 = Observe(p.Fol.BC, u, ByNumber, 1, nil)
		head = Observe(p.Fol.BC, u, Head, 0, nil)
		if !ok[3] {
			t.Fatalf("newState=%v: revert of the emptying block fails", ns)
		}
		eq("head after the revert", head, []string{"0", "0", "5"})
		if ns {
			// the record is created again, stamped with block 2: block 1 (the head!) reads "not found" by number
			eq("new by number 1 after the revert", at1, []string{"-", "-", "-"})
		} else {
			eq("legacy by number 1 after the revert", at1, []string{"0", "0", "5"})
		}
		p.Close()

		// an unrelated block on top of the emptied contract, reverted
		p, ok = run(ns, dep, st("1", "1", "5"), st("1", "1", "0"), st("64", "1", "7"), R)
		if ns && !ok[4] {
			t.Fatal("new backend: revert of the unrelated block fails")
		}
		if !ns && ok[4] {
			t.Fatal("legacy backend: revert of a block above an emptied system contract succeeds (it used to fail: purgesystemContracts removes the contract, the old root no longer matches)")
		}
		p.Close()
	}
	// the two backends commit to different states for the same chain: the legacy backend keeps a leaf for
	// the emptied contract, the new backend has none
	if roots[true] == roots[false] {
		t.Fatalf("state roots of the two backends agree after the emptying: %s", roots[true])
	}
	t.Logf("head state root after the emptying block: new %s, legacy %s", roots[true], roots[false])
}
