// Package statehist: shared pieces of the state-history checks (C03, C04): a small universe of
// addresses / slots / class hashes, abstract diffs and op sequences with their textual encoding for
// the extracted-model oracles, a generator of valid op sequences (stores interleaved with head
// reverts), a block builder that turns an abstract block description into a fully valid juno block
// (copy of chain.Finalise with room for transactions, L1 handlers, Sierra declarations and CASM
// migrations), a sequencer+follower pair per state backend, and the observation of the state
// readers (by number / by hash / head) as canonical tokens.
//
// All numbers are carried as lower-case hex strings without 0x ("0" for zero) so that felts above
// 2^64 (big slots, big values) survive JSON replays and the oracle protocol unchanged.
package statehist

import (
	"sort"
	"strconv"
	"strings"

	"github.com/NethermindEth/juno/core/felt"
)

// ---------- felts as hex ----------

// Felt parses a hex string without 0x.
func Felt(h string) *felt.Felt {
	f, err := new(felt.Felt).SetString("0x" + h)
	if err != nil {
		panic("statehist.Felt(" + h + "): " + err.Error())
	}
	return f
}

// Hex prints a felt as lower-case hex without 0x, "0" for zero.
func Hex(f *felt.Felt) string {
	s := strings.TrimLeft(strings.TrimPrefix(strings.ToLower(f.String()), "0x"), "0")
	if s == "" {
		return "0"
	}
	return s
}

// U is the hex form of a small number.
func U(x uint64) string { return strconv.FormatUint(x, 16) }

// FU is the felt of a small number.
func FU(x uint64) *felt.Felt { f := felt.FromUint64[felt.Felt](x); return &f }

// IsZeroHex tells whether a hex token denotes zero.
func IsZeroHex(h string) bool { return strings.Trim(h, "0") == "" }

// ---------- universe ----------

// Universe lists the addresses, storage slots and (Cairo0) class hashes every observation asks about.
type Universe struct {
	Addrs   []string `json:"addrs"`
	Slots   []string `json:"slots"`
	Classes []string `json:"classes"`
}

// BigSlot is 2^250+5: a storage key whose path uses the top bits of the 251-bit trie.
var BigSlot = "4" + strings.Repeat("0", 61) + "5"

// BigValue is p-1, the largest felt.
var BigValue = "800000000000011000000000000000000000000000000000000000000000000"

func DefaultUniverse() *Universe {
	return &Universe{
		Addrs:   []string{"64", "65", "66", "67"},
		Slots:   []string{"1", "2", "3", BigSlot},
		Classes: []string{"a", "b", "c"},
	}
}

// Query is one question of an observation. Kind: class | nonce | slot | decl.
type Query struct {
	Kind string
	A    string // address (class, nonce, slot) or class hash (decl)
	K    string // slot
}

func (q Query) String() string {
	if q.Kind == "slot" {
		return q.Kind + "(" + q.A + "," + q.K + ")"
	}
	return q.Kind + "(" + q.A + ")"
}

// Queries in universe order: class(a) for all a, nonce(a) for all a, slot(a,k) a-major, declared(h).
func (u *Universe) Queries() []Query {
	var qs []Query
	for _, a := range u.Addrs {
		qs = append(qs, Query{Kind: "class", A: a})
	}
	for _, a := range u.Addrs {
		qs = append(qs, Query{Kind: "nonce", A: a})
	}
	for _, a := range u.Addrs {
		for _, k := range u.Slots {
			qs = append(qs, Query{Kind: "slot", A: a, K: k})
		}
	}
	for _, h := range u.Classes {
		qs = append(qs, Query{Kind: "decl", A: h})
	}
	return qs
}

func listOrDash(l []string) string {
	if len(l) == 0 {
		return "-"
	}
	return strings.Join(l, ",")
}

// Header is the "<addrs> <slots> <classes>" part of an oracle case line.
func (u *Universe) Header() string {
	return listOrDash(u.Addrs) + " " + listOrDash(u.Slots) + " " + listOrDash(u.Classes)
}

// ---------- abstract diffs, blocks, ops ----------

// AV is an (address, value) entry: deployment / replacement (value = class hash) or nonce.
type AV struct {
	A string `json:"a"`
	V string `json:"v"`
}

// AKV is a storage write.
type AKV struct {
	A string `json:"a"`
	K string `json:"k"`
	V string `json:"v"`
}

// Diff is the abstract state diff of one block. Keys are pairwise distinct within each list.
type Diff struct {
	Deploy  []AV     `json:"deploy,omitempty"`
	Replace []AV     `json:"replace,omitempty"`
	Nonce   []AV     `json:"nonce,omitempty"`
	Store   []AKV    `json:"store,omitempty"`
	Decl    []string `json:"decl,omitempty"` // Cairo0 class hashes declared by the block
	// Deliv: class hashes whose (Cairo0) definition is DELIVERED with the block without being declared by it: the
	// definitions the synchroniser fetches for the class hashes of the block's deployed contracts
	// (sync/data_source.go fetchUnknownClasses). Every entry is the class hash of one of Deploy (C03.Model.deliv_ok).
	Deliv []string `json:"deliv,omitempty"`
}

func (d *Diff) Clone() *Diff {
	return &Diff{
		Deploy:  append([]AV(nil), d.Deploy...),
		Replace: append([]AV(nil), d.Replace...),
		Nonce:   append([]AV(nil), d.Nonce...),
		Store:   append([]AKV(nil), d.Store...),
		Decl:    append([]string(nil), d.Decl...),
		Deliv:   append([]string(nil), d.Deliv...),
	}
}

// Len is the number of entries.
func (d *Diff) Len() int {
	return len(d.Deploy) + len(d.Replace) + len(d.Nonce) + len(d.Store) + len(d.Decl) + len(d.Deliv)
}

// Without returns a copy with entry i (counted over deploy, replace, nonce, store, decl, deliv) removed. Removing a
// deployment also removes the delivered classes no remaining deployment uses (the diff stays valid).
func (d *Diff) Without(i int) *Diff {
	c := d.Clone()
	switch {
	case i < len(c.Deploy):
		c.Deploy = append(c.Deploy[:i:i], c.Deploy[i+1:]...)
		var keep []string
		for _, h := range c.Deliv {
			for _, e := range c.Deploy {
				if e.V == h {
					keep = append(keep, h)
					break
				}
			}
		}
		c.Deliv = keep
		return c
	}
	i -= len(c.Deploy)
	if i < len(c.Replace) {
		c.Replace = append(c.Replace[:i:i], c.Replace[i+1:]...)
		return c
	}
	i -= len(c.Replace)
	if i < len(c.Nonce) {
		c.Nonce = append(c.Nonce[:i:i], c.Nonce[i+1:]...)
		return c
	}
	i -= len(c.Nonce)
	if i < len(c.Store) {
		c.Store = append(c.Store[:i:i], c.Store[i+1:]...)
		return c
	}
	i -= len(c.Store)
	if i < len(c.Decl) {
		c.Decl = append(c.Decl[:i:i], c.Decl[i+1:]...)
		return c
	}
	i -= len(c.Decl)
	c.Deliv = append(c.Deliv[:i:i], c.Deliv[i+1:]...)
	return c
}

// Ev is one event of a transaction.
type Ev struct {
	From string   `json:"from"`
	Keys []string `json:"keys,omitempty"`
	Data []string `json:"data,omitempty"`
}

// L1Msg describes one L1-handler transaction (version 0 with nonce). Payload[0] is the L1 sender.
type L1Msg struct {
	To       string   `json:"to"`
	Selector string   `json:"selector"`
	Nonce    string   `json:"nonce"`
	Payload  []string `json:"payload"` // call data; first element = from address (must be present)
}

// SierraDecl names a Sierra class by a small id (the class is SierraClass(id), its hash SierraHash(id))
// together with a compiled class hash: the declared one (DeclaredV1Classes) or the migrated-to one
// (MigratedClasses).
type SierraDecl struct {
	ID   uint64 `json:"id"`
	Casm string `json:"casm"`
}

// BlockSpec describes one block: the abstract diff plus optional extras the C04 harness uses.
type BlockSpec struct {
	Diff      Diff         `json:"diff"`
	Salt      uint64       `json:"salt,omitempty"`      // enters the sequencer address and tx nonces: same diff, different block
	Version   string       `json:"version,omitempty"`   // protocol version, default 0.14.0
	Timestamp uint64       `json:"timestamp,omitempty"` // default: block number
	Txs       [][]Ev       `json:"txs,omitempty"`       // one invoke v3 transaction per entry with its events
	TxSeed    uint64       `json:"tx_seed,omitempty"`   // when non-zero, replaces the block number in the invoke nonces (forces equal tx hashes in different blocks)
	L1        []L1Msg      `json:"l1,omitempty"`        // L1-handler transactions (after the invokes)
	DeclareV1 []SierraDecl `json:"declare_v1,omitempty"`
	Migrate   []SierraDecl `json:"migrate,omitempty"` // needs Version >= 0.14.1 and a class declared below 0.14.1
}

func (b *BlockSpec) Clone() *BlockSpec {
	c := *b
	c.Diff = *b.Diff.Clone()
	return &c
}

// Op is Store(block) or Revert (of the head).
type Op struct {
	Revert bool       `json:"revert,omitempty"`
	Block  *BlockSpec `json:"block,omitempty"`
}

func avList(l []AV) string {
	if len(l) == 0 {
		return "-"
	}
	p := make([]string, len(l))
	for i, e := range l {
		p[i] = e.A + ":" + e.V
	}
	return strings.Join(p, ",")
}

// String is the oracle encoding of the diff: "<deploy> <replace> <nonce> <store> <decl> <delivered>".
func (d *Diff) String() string {
	st := "-"
	if len(d.Store) > 0 {
		p := make([]string, len(d.Store))
		for i, e := range d.Store {
			p[i] = e.A + ":" + e.K + ":" + e.V
		}
		st = strings.Join(p, ",")
	}
	return avList(d.Deploy) + " " + avList(d.Replace) + " " + avList(d.Nonce) + " " + st + " " + listOrDash(d.Decl) + " " + listOrDash(d.Deliv)
}

// ModelDiff is the diff as the state models see it: Sierra declarations are class declarations too.
// Writes to the system contracts 0x1 / 0x2 are part of the models (C03.Model: sys_new, purge by storage
// root) and stay in.
func (b *BlockSpec) ModelDiff() *Diff {
	if len(b.DeclareV1) == 0 {
		return &b.Diff
	}
	d := b.Diff.Clone()
	for _, s := range b.DeclareV1 {
		d.Decl = append(d.Decl, Hex(SierraHash(s.ID)))
	}
	return d
}

// CasmLine is the block as the CASM-metadata machine of C03.Model sees it:
// "<v2 0|1> <declared h:c:v2hash,..> <migrated h:c,..>".
func (b *BlockSpec) CasmLine() string {
	v2 := "0"
	if b.Version == "0.14.1" {
		v2 = "1"
	}
	var decl, migr []string
	for _, d := range b.DeclareV1 {
		decl = append(decl, Hex(SierraHash(d.ID))+":"+d.Casm+":"+SierraCasmV2(d.ID))
	}
	for _, d := range b.Migrate {
		migr = append(migr, Hex(SierraHash(d.ID))+":"+d.Casm)
	}
	return v2 + " " + listOrDash(decl) + " " + listOrDash(migr)
}

// String is the oracle encoding of an op: "R" or "S <diff>".
func (o Op) String() string {
	if o.Revert {
		return "R"
	}
	return "S " + o.Block.ModelDiff().String()
}

// OpsLine joins ops with ';'.
func OpsLine(ops []Op) string {
	p := make([]string, len(ops))
	for i, o := range ops {
		p[i] = o.String()
	}
	return strings.Join(p, ";")
}

// CaseLine is the C03 oracle request: "case <new|old> <addrs> <slots> <classes> | <ops>".
// backend is "new" or "legacy" (sent as "old").
func CaseLine(backend string, u *Universe, ops []Op) string {
	b := "new"
	if backend != "new" {
		b = "old"
	}
	return "case " + b + " " + u.Header() + " | " + OpsLine(ops)
}

// CloneOps deep-copies an op sequence.
func CloneOps(ops []Op) []Op {
	out := make([]Op, len(ops))
	for i, o := range ops {
		out[i] = Op{Revert: o.Revert}
		if o.Block != nil {
			out[i].Block = o.Block.Clone()
		}
	}
	return out
}

// ---------- abstract state (Go-side truth used by the generator and the optional probes) ----------

// Abs is the abstract state after some block: plain maps.
type Abs struct {
	Class map[string]string // deployed address -> class hash
	Nonce map[string]string // deployed address -> nonce
	Slot  map[string]string // "addr:slot" -> non-zero value
	Decl  map[string]uint64 // class hash -> block it was declared at
}

func NewAbs() *Abs {
	return &Abs{Class: map[string]string{}, Nonce: map[string]string{}, Slot: map[string]string{}, Decl: map[string]uint64{}}
}

func (a *Abs) Clone() *Abs {
	c := NewAbs()
	for k, v := range a.Class {
		c.Class[k] = v
	}
	for k, v := range a.Nonce {
		c.Nonce[k] = v
	}
	for k, v := range a.Slot {
		c.Slot[k] = v
	}
	for k, v := range a.Decl {
		c.Decl[k] = v
	}
	return c
}

func (a *Abs) SlotAt(addr, slot string) string {
	if v, ok := a.Slot[addr+":"+slot]; ok {
		return v
	}
	return "0"
}

// Valid mirrors C03.Model.valid_diffb: distinct keys, deploy only absent contracts, replace only
// contracts that existed before the block, nonces and writes only on deployed-or-being-deployed ones;
// the system contracts 0x1 / 0x2 are never deployed / replaced / given a nonce, and may always be written to;
// a delivered class is the class of one of the block's deployed contracts, not declared by the block, listed once.
func (a *Abs) Valid(d *Diff) bool {
	seen := map[string]bool{}
	dup := func(k string) bool {
		if seen[k] {
			return true
		}
		seen[k] = true
		return false
	}
	being := map[string]bool{}
	for _, e := range d.Deploy {
		if _, ok := a.Class[e.A]; ok || dup("d"+e.A) || IsSysAddr(e.A) {
			return false
		}
		being[e.A] = true
	}
	for _, e := range d.Replace {
		if _, ok := a.Class[e.A]; !ok || dup("r"+e.A) || IsSysAddr(e.A) {
			return false
		}
	}
	dep := func(x string) bool { _, ok := a.Class[x]; return ok || being[x] }
	for _, e := range d.Nonce {
		if dup("n"+e.A) || !dep(e.A) || IsSysAddr(e.A) {
			return false
		}
	}
	for _, e := range d.Store {
		if dup("s"+e.A+":"+e.K) || !(dep(e.A) || IsSysAddr(e.A)) {
			return false
		}
	}
	for _, h := range d.Decl {
		if dup("c" + h) {
			return false
		}
	}
	for _, h := range d.Deliv {
		if seen["c"+h] || dup("v"+h) {
			return false
		}
		used := false
		for _, e := range d.Deploy {
			used = used || e.V == h
		}
		if !used {
			return false
		}
	}
	return true
}

// Apply mirrors C03.Model.apply_diff for block number n.
func (a *Abs) Apply(n uint64, d *Diff) {
	for _, e := range d.Deploy {
		a.Class[e.A] = e.V
		a.Nonce[e.A] = "0"
	}
	for _, e := range d.Replace {
		if _, ok := a.Class[e.A]; ok {
			a.Class[e.A] = e.V
		}
	}
	for _, e := range d.Nonce {
		if _, ok := a.Class[e.A]; ok {
			a.Nonce[e.A] = e.V
		}
	}
	for _, e := range d.Store {
		if IsZeroHex(e.V) {
			delete(a.Slot, e.A+":"+e.K)
		} else {
			a.Slot[e.A+":"+e.K] = e.V
		}
	}
	for _, h := range d.Decl {
		if _, ok := a.Decl[h]; !ok {
			a.Decl[h] = n
		}
	}
	for _, h := range d.Deliv {
		if _, ok := a.Decl[h]; !ok {
			a.Decl[h] = n
		}
	}
}

// SysExists: a system contract exists in the abstract state iff one of its slots is non-zero
// (C03.Model.sys_exists).
func (a *Abs) SysExists(addr string) bool {
	for k := range a.Slot {
		if strings.HasPrefix(k, addr+":") {
			return true
		}
	}
	return false
}

// Answers lists the truth tokens of the abstract state in universe order (ordinary contracts only).
func (a *Abs) Answers(u *Universe) []string {
	var out []string
	for _, q := range u.Queries() {
		switch q.Kind {
		case "class":
			if v, ok := a.Class[q.A]; ok {
				out = append(out, v)
			} else {
				out = append(out, "-")
			}
		case "nonce":
			if v, ok := a.Nonce[q.A]; ok {
				out = append(out, v)
			} else {
				out = append(out, "-")
			}
		case "slot":
			if _, ok := a.Class[q.A]; ok {
				out = append(out, a.SlotAt(q.A, q.K))
			} else {
				out = append(out, "-")
			}
		case "decl":
			if v, ok := a.Decl[q.A]; ok {
				out = append(out, U(v))
			} else {
				out = append(out, "-")
			}
		}
	}
	return out
}

// Kinds classifies the entries of d on top of state a (histogram labels, "nontrivial" detection).
func (a *Abs) Kinds(d *Diff) []string {
	var ks []string
	being := map[string]bool{}
	for _, e := range d.Deploy {
		being[e.A] = true
		ks = append(ks, "deploy")
	}
	for _, e := range d.Replace {
		if a.Class[e.A] == e.V {
			ks = append(ks, "replace-same")
		} else {
			ks = append(ks, "replace")
		}
	}
	for _, e := range d.Nonce {
		cur, ok := a.Nonce[e.A]
		switch {
		case !ok:
			ks = append(ks, "nonce-on-deploy")
		case cur == e.V:
			ks = append(ks, "nonce-same")
		default:
			ks = append(ks, "nonce")
		}
	}
	for _, e := range d.Store {
		cur := a.SlotAt(e.A, e.K)
		k := ""
		switch {
		case IsZeroHex(e.V) && cur == "0":
			k = "write-zero-noop"
		case IsZeroHex(e.V):
			k = "write-zero-over-nonzero"
		case cur == e.V:
			k = "write-same"
		case cur == "0":
			k = "write-nonzero"
		default:
			k = "write-overwrite"
		}
		if being[e.A] {
			ks = append(ks, "deploy-and-touch")
		}
		ks = append(ks, k)
	}
	for _, h := range d.Decl {
		if _, ok := a.Decl[h]; ok {
			ks = append(ks, "declare-again")
		} else {
			ks = append(ks, "declare")
		}
	}
	for _, h := range d.Deliv {
		if _, ok := a.Decl[h]; ok {
			ks = append(ks, "class-delivered-for-deploy-known-already")
		} else {
			ks = append(ks, "class-delivered-for-deploy")
		}
	}
	if d.Len() == 0 {
		ks = append(ks, "empty-diff")
	}
	return ks
}

// HasZeroNoop tells whether d writes zero to a slot that is zero in a: the legacy backend logs no
// history entry for it and a later RevertHead of that block fails (ErrCheckHeadState).
func (a *Abs) HasZeroNoop(d *Diff) bool {
	for _, e := range d.Store {
		if IsZeroHex(e.V) && a.SlotAt(e.A, e.K) == "0" {
			return true
		}
	}
	return false
}

func sortedKeys[V any](m map[string]V) []string {
	ks := make([]string, 0, len(m))
	for k := range m {
		ks = append(ks, k)
	}
	sort.Strings(ks)
	return ks
}
