// Package term evaluates the hash terms printed by the extracted Coq models with juno's own
// primitives (core/crypto). Grammar: (C hex) | (P a b) | (S a b) | (SN a...) | (PN a...) | (A a n) | (B bits|-)
package term

import (
	"fmt"
	"math/big"
	"strconv"
	"strings"

	"github.com/NethermindEth/juno/core/crypto"
	"github.com/NethermindEth/juno/core/felt"
)

type parser struct {
	toks []string
	pos  int
	// statistics
	NPed, NPos int
}

func tokenize(s string) []string {
	s = strings.ReplaceAll(s, "(", " ( ")
	s = strings.ReplaceAll(s, ")", " ) ")
	return strings.Fields(s)
}

// Eval evaluates one term.
func Eval(s string) (felt.Felt, error) {
	p := &parser{toks: tokenize(s)}
	v, err := p.term()
	if err != nil {
		return felt.Felt{}, err
	}
	if p.pos != len(p.toks) {
		return felt.Felt{}, fmt.Errorf("trailing tokens in term")
	}
	return v, nil
}

func MustEval(s string) felt.Felt {
	v, err := Eval(s)
	if err != nil {
		panic(fmt.Sprintf("term %q: %v", s, err))
	}
	return v
}

func (p *parser) next() (string, error) {
	if p.pos >= len(p.toks) {
		return "", fmt.Errorf("unexpected end of term")
	}
	t := p.toks[p.pos]
	p.pos++
	return t, nil
}

func (p *parser) args() ([]felt.Felt, error) {
	var res []felt.Felt
	for p.pos < len(p.toks) && p.toks[p.pos] != ")" {
		v, err := p.term()
		if err != nil {
			return nil, err
		}
		res = append(res, v)
	}
	return res, nil
}

func FeltFromHex(h string) felt.Felt {
	neg := strings.HasPrefix(h, "-")
	h = strings.TrimPrefix(h, "-")
	b, ok := new(big.Int).SetString(h, 16)
	if !ok {
		panic("bad hex " + h)
	}
	if neg {
		b.Neg(b)
	}
	var f felt.Felt
	f.SetBigInt(b)
	return f
}

func (p *parser) term() (felt.Felt, error) {
	var zero felt.Felt
	t, err := p.next()
	if err != nil {
		return zero, err
	}
	if t != "(" {
		return zero, fmt.Errorf("expected ( got %q", t)
	}
	op, err := p.next()
	if err != nil {
		return zero, err
	}
	var res felt.Felt
	switch op {
	case "C":
		h, err := p.next()
		if err != nil {
			return zero, err
		}
		res = FeltFromHex(h)
	case "B":
		bits, err := p.next()
		if err != nil {
			return zero, err
		}
		if bits != "-" {
			b, ok := new(big.Int).SetString(bits, 2)
			if !ok {
				return zero, fmt.Errorf("bad bits %q", bits)
			}
			res.SetBigInt(b)
		}
	case "A":
		a, err := p.term()
		if err != nil {
			return zero, err
		}
		ns, err := p.next()
		if err != nil {
			return zero, err
		}
		n, err := strconv.ParseUint(ns, 10, 64)
		if err != nil {
			return zero, err
		}
		nf := felt.FromUint64[felt.Felt](n)
		res.Add(&a, &nf)
	case "P", "S", "SN", "PN":
		as, err := p.args()
		if err != nil {
			return zero, err
		}
		switch op {
		case "P":
			if len(as) != 2 {
				return zero, fmt.Errorf("P arity")
			}
			res = crypto.Pedersen(&as[0], &as[1])
		case "S":
			if len(as) != 2 {
				return zero, fmt.Errorf("S arity")
			}
			res = crypto.Poseidon(&as[0], &as[1])
		case "SN":
			res = crypto.PoseidonArray(as)
		case "PN":
			res = crypto.PedersenArray(as)
		}
	default:
		return zero, fmt.Errorf("unknown op %q", op)
	}
	t, err = p.next()
	if err != nil {
		return zero, err
	}
	if t != ")" {
		return zero, fmt.Errorf("expected ) got %q", t)
	}
	return res, nil
}
