(* C01 oracle.
   trie  <ped|pos> <height> k:v k:v ...   -> one line per op "root <term>" (model's transcription of
                                             trie2 insert/delete), then "canon t|f", then "spec <term>"
                                             (commitment of the resulting key/value set), then "end"
   state <pre|post> <block> | <block> ...  -> per block "root <term>", then "end"
     block items: dep:a:c rep:a:c non:a:n sto:a:k:v dec:c:casm mig:c:casm
   trie1 <ped|pos> <height> k:v[:n] ...  -> the LEGACY flat trie model (Trie1.v): one line per op, "root <term>"
                                             (Put then Hash()), "skip" (op written k:v:n = Put without Hash())
                                             or "error"; then "rootkey <bits|-|nil>" and, sorted by key, one
                                             "node <key> <left|nil> <right|nil> <stored value term>" per stored
                                             node (bits as 0/1 strings, "-" = the empty path), then "end"
   Terms are printed as S-expressions; the harness evaluates them with core/crypto. *)
let rec show_term (t : term) : string = match t with
  | TC z -> "(C " ^ hex_of_z z ^ ")"
  | TPed (a, b) -> "(P " ^ show_term a ^ " " ^ show_term b ^ ")"
  | TPos2 (a, b) -> "(S " ^ show_term a ^ " " ^ show_term b ^ ")"
  | TPosN l -> "(SN " ^ String.concat " " (List.map show_term l) ^ ")"
  | TPedN l -> "(PN " ^ String.concat " " (List.map show_term l) ^ ")"
  | TAddLen (a, n) -> "(A " ^ show_term a ^ " " ^ string_of_int (int_of_nat n) ^ ")"
  | TPath p -> "(B " ^ (if p = [] then "-" else String.concat "" (List.map (fun b -> if b then "1" else "0") p)) ^ ")"

let show_bits (p : bool list) : string =
  if p = [] then "-" else String.concat "" (List.map (fun b -> if b then "1" else "0") p)
let show_obits (p : bool list option) : string = match p with None -> "nil" | Some p -> show_bits p

let kvh s = match String.split_on_char ':' s with
  | [k; v] -> ((z_of_hex k, z_of_hex v), true)
  | [k; v; "n"] -> ((z_of_hex k, z_of_hex v), false)
  | _ -> failwith "kvh"

let kv s = match String.split_on_char ':' s with
  | [k; v] -> (z_of_hex k, z_of_hex v) | _ -> failwith "kv"

let parse_block (items : string list) : diff =
  let dep = ref [] and rep = ref [] and non = ref [] and sto = ref [] and dec = ref [] and mig = ref [] in
  List.iter (fun it -> match String.split_on_char ':' it with
    | ["dep"; a; c] -> dep := !dep @ [(z_of_hex a, z_of_hex c)]
    | ["rep"; a; c] -> rep := !rep @ [(z_of_hex a, z_of_hex c)]
    | ["non"; a; n] -> non := !non @ [(z_of_hex a, z_of_hex n)]
    | ["sto"; a; k; v] ->
        let a = z_of_hex a in
        let cur = try List.assoc a !sto with Not_found -> [] in
        sto := (List.remove_assoc a !sto) @ [(a, cur @ [(z_of_hex k, z_of_hex v)])]
    | ["ste"; a] ->   (* a per-contract storage entry without slots *)
        let a = z_of_hex a in
        if not (List.mem_assoc a !sto) then sto := !sto @ [(a, [])]
    | ["dec"; c; h] -> dec := !dec @ [(z_of_hex c, z_of_hex h)]
    | ["mig"; c; h] -> mig := !mig @ [(z_of_hex c, z_of_hex h)]
    | _ -> failwith ("block item " ^ it)) items;
  { d_deployed = !dep; d_replaced = !rep; d_nonces = !non; d_storage = !sto; d_declared = !dec; d_migrated = !mig }

let () =
  read_lines (fun line ->
    (match words line with
    | "trie" :: hf :: h :: ops ->
        let hf = if hf = "ped" then (fun a b -> TPed (a, b)) else (fun a b -> TPos2 (a, b)) in
        let h = nat_of_int (int_of_string h) in
        let ops = List.map kv ops in
        let trees = t_run h None ops in
        List.iter (fun t -> print_endline ("root " ^ show_term (t_root hf t))) trees;
        let last = match List.rev trees with [] -> None | t :: _ -> t in
        print_endline ("canon " ^ (if List.for_all (t_canon h) trees then "t" else "f"));
        print_endline ("spec " ^ show_term (t_spec_root hf h (abs_run ops)));
        ignore last
    | "trie1" :: hf :: h :: ops ->
        let hf = if hf = "ped" then (fun a b -> TPed (a, b)) else (fun a b -> TPos2 (a, b)) in
        let h = nat_of_int (int_of_string h) in
        let ops = List.map kvh ops in
        let (res, fin) = t1_run hf h t1_empty ops in
        List.iter (fun r -> print_endline (match r with
          | T1Root t -> "root " ^ show_term t | T1Skip -> "skip" | T1Err -> "error")) res;
        (match fin with
         | None -> ()
         | Some st ->
             print_endline ("rootkey " ^ show_obits (t1_root_key st));
             let rows = List.map (fun (((k, l), r), v) ->
               (show_bits k, "node " ^ show_bits k ^ " " ^ show_obits l ^ " " ^ show_obits r ^ " " ^ show_term v)) (t1_dump st) in
             List.iter (fun (_, s) -> print_endline s) (List.sort (fun (a, _) (b, _) -> compare a b) rows))
    | "state" :: ver :: rest ->
        let blocks = List.map words (String.split_on_char '|' (String.concat " " rest)) in
        let ds = List.map parse_block blocks in
        List.iter (fun st -> print_endline ("root " ^ show_term (commitment (ver = "pre") st))) (s_run true empty_state ds);
        List.iter (fun st -> print_endline ("nopurge " ^ show_term (commitment (ver = "pre") st))) (s_run false empty_state ds)
    | _ -> failwith ("bad request: " ^ line));
    print_endline "end"; flush stdout)
