(* C01 oracle.
   trie  <ped|pos> <height> k:v k:v ...   -> one line per op "root <term>" (model's transcription of
                                             trie2 insert/delete), then "canon t|f", then "spec <term>"
                                             (commitment of the resulting key/value set), then "end"
   state <pre|post> <block> | <block> ...  -> per block "root <term>", then "end"
     block items: dep:a:c rep:a:c non:a:n sto:a:k:v dec:c:casm mig:c:casm
   trie1 <ped|pos> <height> k:v[:n] ...  -> the LEGACY flat trie model (Trie1.v): one line per op, "root <term>"
                                             (Put then Hash()), "skip" (op written k:v:n = Put without Hash())
                                             or "error"; then "rootkey <bits|-|nil>" and, sorted by key, one
                                             "node <key> <left|nil> <right|nil> <stored value term>" per stored
                                             node (bits as 0/1 strings, "-" = the empty path), then "end"
   ba <op> <args>                        -> the word-level BitArray model (BitArray.v): one reply line.
                                             bit arrays are written L:W3.W2.W1.W0 (length decimal, words hex),
                                             byte strings as hex ("-" = empty), small numbers decimal, felts hex.
                                             Replies: "ba <bitarray> <wf t|f>", "b t|f", "n <decimal>", "h <hex>",
                                             "x <hex bytes>", "err".
   nenc <value> <left> <right> <lh> <rh> -> Node.WriteTo:   "x <hex bytes>" or "err"      ("nil" = nil field)
   ndec <rlh> <rrh> <hex bytes>          -> Node.UnmarshalBinary on a receiver with these LeftHash/RightHash:
                                             "node <value> <left> <right> <lh> <rh>" or "err"
   Terms are printed as S-expressions; the harness evaluates them with core/crypto. *)
let rec show_term (t : term) : string = match t with
  | TC z -> "(C " ^ hex_of_z z ^ ")"
  | TPed (a, b) -> "(P " ^ show_term a ^ " " ^ show_term b ^ ")"
  | TPos2 (a, b) -> "(S " ^ show_term a ^ " " ^ show_term b ^ ")"
  | TPosN l -> "(SN " ^ String.concat " " (List.map show_term l) ^ ")"
  | TPedN l -> "(PN " ^ String.concat " " (List.map show_term l) ^ ")"
  | TAddLen (a, n) -> "(A " ^ show_term a ^ " " ^ string_of_int (int_of_nat n) ^ ")"
  | TPath p -> "(B " ^ (if p = [] then "-" else String.concat "" (List.map (fun b -> if b then "1" else "0") p)) ^ ")"

let show_bits (p : bool list) : string =
  if p = [] then "-" else String.concat "" (List.map (fun b -> if b then "1" else "0") p)
let show_obits (p : bool list option) : string = match p with None -> "nil" | Some p -> show_bits p

let kvh s = match String.split_on_char ':' s with
  | [k; v] -> ((z_of_hex k, z_of_hex v), true)
  | [k; v; "n"] -> ((z_of_hex k, z_of_hex v), false)
  | _ -> failwith "kvh"

let kv s = match String.split_on_char ':' s with
  | [k; v] -> (z_of_hex k, z_of_hex v) | _ -> failwith "kv"

let parse_block (items : string list) : diff =
  let dep = ref [] and rep = ref [] and non = ref [] and sto = ref [] and dec = ref [] and mig = ref [] in
  List.iter (fun it -> match String.split_on_char ':' it with
    | ["dep"; a; c] -> dep := !dep @ [(z_of_hex a, z_of_hex c)]
    | ["rep"; a; c] -> rep := !rep @ [(z_of_hex a, z_of_hex c)]
    | ["non"; a; n] -> non := !non @ [(z_of_hex a, z_of_hex n)]
    | ["sto"; a; k; v] ->
        let a = z_of_hex a in
        let cur = try List.assoc a !sto with Not_found -> [] in
        sto := (List.remove_assoc a !sto) @ [(a, cur @ [(z_of_hex k, z_of_hex v)])]
    | ["ste"; a] ->   (* a per-contract storage entry without slots *)
        let a = z_of_hex a in
        if not (List.mem_assoc a !sto) then sto := !sto @ [(a, [])]
    | ["dec"; c; h] -> dec := !dec @ [(z_of_hex c, z_of_hex h)]
    | ["mig"; c; h] -> mig := !mig @ [(z_of_hex c, z_of_hex h)]
    | _ -> failwith ("block item " ^ it)) items;
  { d_deployed = !dep; d_replaced = !rep; d_nonces = !non; d_storage = !sto; d_declared = !dec; d_migrated = !mig }


(* ---------- BitArray / node codec requests ---------- *)
let parse_ba (s : string) : bitarray = match String.split_on_char ':' s with
  | [l; ws] -> (match String.split_on_char '.' ws with
      | [a3; a2; a1; a0] -> { blen = n_of_int (int_of_string l); w0 = n_of_hex a0; w1 = n_of_hex a1; w2 = n_of_hex a2; w3 = n_of_hex a3 }
      | _ -> failwith ("bitarray words " ^ s))
  | _ -> failwith ("bitarray " ^ s)
let show_ba (b : bitarray) : string =
  string_of_int (int_of_n b.blen) ^ ":" ^ hex_of_n b.w3 ^ "." ^ hex_of_n b.w2 ^ "." ^ hex_of_n b.w1 ^ "." ^ hex_of_n b.w0
let parse_oba (s : string) : bitarray option = if s = "nil" then None else Some (parse_ba s)
let show_oba (o : bitarray option) : string = match o with None -> "nil" | Some b -> show_ba b
let parse_bytes (s : string) : n list =
  if s = "-" then [] else
  List.init (String.length s / 2) (fun i -> n_of_int (16 * hexval s.[2 * i] + hexval s.[2 * i + 1]))
let show_bytes (l : n list) : string =
  if l = [] then "-" else
  String.concat "" (List.map (fun b -> Printf.sprintf "%02x" (int_of_n b)) l)
let num (s : string) : n = n_of_int (int_of_string s)
let parse_on (s : string) : n option = if s = "nil" then None else Some (n_of_hex s)
let show_on (o : n option) : string = match o with None -> "nil" | Some v -> hex_of_n v
let rba (b : bitarray) : string = "ba " ^ show_ba b ^ (if wfb b then " t" else " f")
let rbool (b : bool) : string = if b then "b t" else "b f"
let rnum (v : n) : string = "n " ^ string_of_int (int_of_n v)

let ba_request (op : string) (a : string list) : string = match op, a with
  | "lsbs_from_lsb", [x; n] -> rba (lsbs_from_lsb (parse_ba x) (num n))
  | "lsbs", [x; n] -> rba (lsbs (parse_ba x) (num n))
  | "msbs", [x; n] -> rba (msbs (parse_ba x) (num n))
  | "rsh", [x; n] -> rba (rsh (parse_ba x) (num n))
  | "lsh", [x; n] -> rba (lsh (parse_ba x) (num n))
  | "append", [x; y] -> rba (append (parse_ba x) (parse_ba y))
  | "append_bit", [x; b] -> rba (append_bit (parse_ba x) (num b))
  | "append_zeros", [x; n] -> rba (append_zeros (parse_ba x) (num n))
  | "subset", [x; s; e] -> rba (subset (parse_ba x) (num s) (num e))
  | "or", [x; y] -> rba (ba_or (parse_ba x) (parse_ba y))
  | "and", [x; y] -> rba (ba_and (parse_ba x) (parse_ba y))
  | "xor", [l; x; y] -> rba (ba_xor (num l) (parse_ba x) (parse_ba y))
  | "equal", [x; y] -> rbool (oba_eqb (parse_oba x) (parse_oba y))
  | "equal_msbs", [x; y] -> rbool (ba_equal_msbs (parse_ba x) (parse_ba y))
  | "common_msbs", [x; y] -> rba (ba_common_msbs (parse_ba x) (parse_ba y))
  | "bit", [x; n] -> rnum (bit (parse_ba x) (num n))
  | "bit_from_lsb", [x; n] -> rnum (bit_from_lsb (parse_ba x) (num n))
  | "is_bit_set", [x; n] -> rbool (ba_is_bit_set (parse_ba x) (num n))
  | "is_bit_set_from_lsb", [x; n] -> rbool (is_bit_set_from_lsb (parse_ba x) (num n))
  | "msb", [x] -> rnum (ba_msb (parse_ba x))
  | "lsb", [x] -> rnum (ba_lsb (parse_ba x))
  | "is_empty", [x] -> rbool (ba_is_empty (parse_ba x))
  | "len", [x] -> rnum (ba_len (parse_ba x))
  | "cmp", [x; y] -> (match ba_cmp (parse_ba x) (parse_ba y) with Lt -> "n -1" | Eq -> "n 0" | Gt -> "n 1")
  | "set_bit", [b] -> rba (set_bit (num b))
  | "ones", [n] -> rba (ones (num n))
  | "zeros", [n] -> rba (zeros (num n))
  | "set_uint64", [r; l; d] -> rba (set_uint64 (parse_ba r) (num l) (n_of_hex d))
  | "new_bit_array", [l; d] -> rba (new_bit_array (num l) (n_of_hex d))
  | "set_bytes", [l; d] -> rba (set_bytes (num l) (parse_bytes d))
  | "set_felt", [l; f] -> rba (set_felt (num l) (n_of_hex f))
  | "set_felt251", [f] -> rba (set_felt251 (n_of_hex f))
  | "felt", [x] -> "h " ^ hex_of_n (ba_felt (parse_ba x))
  | "bytes", [x] -> "x " ^ show_bytes (bytes32 (parse_ba x))
  | "write", [x] -> "x " ^ show_bytes (ba_write (parse_ba x))
  | "unmarshal", [d] -> (match ba_unmarshal (parse_bytes d) with None -> "err" | Some b -> rba b)
  | "encoded_len", [x] -> rnum (encoded_len (parse_ba x))
  | "encoded_string", [x] -> "x " ^ show_bytes (encoded_string (parse_ba x))
  | "path", [k; p] -> rba (ba_path (parse_ba k) (parse_oba p))
  | "copy", [x] -> rba (parse_ba x)
  | "find_first_set_bit", [x] -> rnum (find_first_set_bit (parse_ba x))
  | _ -> failwith ("bad ba request: " ^ op)

let show_node (n : snode) : string =
  "node " ^ show_on n.sn_value ^ " " ^ show_oba n.sn_left ^ " " ^ show_oba n.sn_right ^ " " ^ show_on n.sn_lh ^ " " ^ show_on n.sn_rh

let () =
  read_lines (fun line ->
    (match words line with
    | "trie" :: hf :: h :: ops ->
        let hf = if hf = "ped" then (fun a b -> TPed (a, b)) else (fun a b -> TPos2 (a, b)) in
        let h = nat_of_int (int_of_string h) in
        let ops = List.map kv ops in
        let trees = t_run h None ops in
        List.iter (fun t -> print_endline ("root " ^ show_term (t_root hf t))) trees;
        let last = match List.rev trees with [] -> None | t :: _ -> t in
        print_endline ("canon " ^ (if List.for_all (t_canon h) trees then "t" else "f"));
        print_endline ("spec " ^ show_term (t_spec_root hf h (abs_run ops)));
        ignore last
    | "trie1" :: hf :: h :: ops ->
        let hf = if hf = "ped" then (fun a b -> TPed (a, b)) else (fun a b -> TPos2 (a, b)) in
        let h = nat_of_int (int_of_string h) in
        let ops = List.map kvh ops in
        let (res, fin) = t1_run hf h t1_empty ops in
        List.iter (fun r -> print_endline (match r with
          | T1Root t -> "root " ^ show_term t | T1Skip -> "skip" | T1Err -> "error")) res;
        (match fin with
         | None -> ()
         | Some st ->
             print_endline ("rootkey " ^ show_obits (t1_root_key st));
             let rows = List.map (fun (((k, l), r), v) ->
               (show_bits k, "node " ^ show_bits k ^ " " ^ show_obits l ^ " " ^ show_obits r ^ " " ^ show_term v)) (t1_dump st) in
             List.iter (fun (_, s) -> print_endline s) (List.sort (fun (a, _) (b, _) -> compare a b) rows))
    | "ba" :: op :: args -> print_endline (ba_request op args)
    | ["nenc"; v; l; r; lh; rh] ->
        let n = { sn_value = parse_on v; sn_left = parse_oba l; sn_right = parse_oba r; sn_lh = parse_on lh; sn_rh = parse_on rh } in
        print_endline (match node_encode n with None -> "err" | Some bs -> "x " ^ show_bytes bs)
    | ["ndec"; rlh; rrh; d] ->
        print_endline (match node_decode (parse_on rlh) (parse_on rrh) (parse_bytes d) with None -> "err" | Some n -> show_node n)
    | "state" :: ver :: rest ->
        let blocks = List.map words (String.split_on_char '|' (String.concat " " rest)) in
        let ds = List.map parse_block blocks in
        List.iter (fun st -> print_endline ("root " ^ show_term (commitment (ver = "pre") st))) (s_run true empty_state ds);
        List.iter (fun st -> print_endline ("nopurge " ^ show_term (commitment (ver = "pre") st))) (s_run false empty_state ds)
    | _ -> failwith ("bad request: " ^ line));
    print_endline "end"; flush stdout)
