(* C02 oracle. One request per line, fields separated by blanks; numbers are hex without 0x; lists are
   comma separated ("-" = empty).
   tx <chain> <txspec>            -> "hash <term>"
   block <key=value ...>          -> "txc <term>" "evc <term>" "rcc <term>" "sdh <term>" "sdl <hex>" "cc <hex>"
                                     "gph <term>" "bh <term>|none"
   block07 <chain> <key=value ...> -> "bh07 <term>"  (pre-0.7 hash format of early mainnet / goerli blocks)
   state <pre|post> <block> | ... -> per block "root <term>" (C01's state model: commitment after each diff)
   every reply ends with "end".
   txspec (fields separated by '|'):
     inv0|q|contract|selector|maxfee|calldata          inv1|q|sender|maxfee|nonce|calldata
     inv3|q|sender|nonce|V3|acctdeploy|calldata|proof  dcl1|q|sender|maxfee|nonce|class
     dcl2|q|sender|maxfee|nonce|class|compiled         dcl3|q|sender|nonce|V3|acctdeploy|class|compiled
     dac1|q|contract|maxfee|nonce|class|salt|ctor      dac3|q|contract|nonce|V3|ctor|class|salt
     l1h|q|contract|selector|nonce|calldata            unv|has_sig   (hash not recomputed by juno: "hash none")
     V3 = tip|l1amount|l1price|l2amount|l2price|l1data("-" or amount:price)|paymaster|nonce_da|fee_da
   block keys: num root seq ts txc evc blob g=(l1wei,l1fri,dwei,dfri,l2wei,l2fri) vs ver=(a.b.c decimal) parent
     t=<txspec>~<sig>~<hash>             (repeated, in order)
     r=<txhash>~<fee>~<msgs>~<revert>~<l1gas>~<l1datagas>~<events>   (repeated)
        msgs: from:to:payload;...  ("-" none; payload items '+' separated, "-" empty)   revert: "-" or keccak hex
        events: from:keys:data;... (keys/data '+' separated)
     dep= rep= non= dec= mig=  a:b;a:b     v0= a,b      sto= addr:k+v+k+v;addr:-  *)
let rec show_term (t : term) : string = match t with
  | TC z -> "(C " ^ hex_of_z z ^ ")"
  | TPed (a, b) -> "(P " ^ show_term a ^ " " ^ show_term b ^ ")"
  | TPos2 (a, b) -> "(S " ^ show_term a ^ " " ^ show_term b ^ ")"
  | TPosN l -> "(SN " ^ String.concat " " (List.map show_term l) ^ ")"
  | TPedN l -> "(PN " ^ String.concat " " (List.map show_term l) ^ ")"
  | TAddLen (a, n) -> "(A " ^ show_term a ^ " " ^ string_of_int (int_of_nat n) ^ ")"
  | TPath p -> "(B " ^ (if p = [] then "-" else String.concat "" (List.map (fun b -> if b then "1" else "0") p)) ^ ")"

let zl (sep : char) (s : string) : z list =
  if s = "-" || s = "" then [] else List.map z_of_hex (String.split_on_char sep s)
let zs = zl ','
let qb s = (s = "1")

let v3 = function
  | [tip; l1a; l1p; l2a; l2p; l1d; pm; nda; fda] ->
      { v_tip = z_of_hex tip;
        v_l1 = { rb_amount = z_of_hex l1a; rb_price = z_of_hex l1p };
        v_l2 = { rb_amount = z_of_hex l2a; rb_price = z_of_hex l2p };
        v_l1d = (if l1d = "-" then None else match String.split_on_char ':' l1d with
                 | [a; p] -> Some { rb_amount = z_of_hex a; rb_price = z_of_hex p } | _ -> failwith "l1d");
        v_paymaster = zs pm; v_nonce_da = z_of_hex nda; v_fee_da = z_of_hex fda }
  | _ -> failwith "v3"

let parse_tx (s : string) : tx =
  let h = z_of_hex in
  match String.split_on_char '|' s with
  | ["inv0"; q; c; sel; mf; cd] -> InvokeV0 (qb q, h c, h sel, h mf, zs cd)
  | ["inv1"; q; snd; mf; n; cd] -> InvokeV1 (qb q, h snd, h mf, h n, zs cd)
  | "inv3" :: q :: snd :: n :: a :: b :: c :: d :: e :: f :: g :: i :: j :: [ad; cd; pf] ->
      InvokeV3 (qb q, h snd, h n, v3 [a; b; c; d; e; f; g; i; j], zs ad, zs cd, zs pf)
  | ["dcl1"; q; snd; mf; n; ch] -> DeclareV1 (qb q, h snd, h mf, h n, h ch)
  | ["dcl2"; q; snd; mf; n; ch; cc] -> DeclareV2 (qb q, h snd, h mf, h n, h ch, h cc)
  | "dcl3" :: q :: snd :: n :: a :: b :: c :: d :: e :: f :: g :: i :: j :: [ad; ch; cc] ->
      DeclareV3 (qb q, h snd, h n, v3 [a; b; c; d; e; f; g; i; j], zs ad, h ch, h cc)
  | ["dac1"; q; c; mf; n; ch; salt; ctor] -> DeployAccountV1 (qb q, h c, h mf, h n, h ch, h salt, zs ctor)
  | "dac3" :: q :: ct :: n :: a :: b :: c :: d :: e :: f :: g :: i :: j :: [ctor; ch; salt] ->
      DeployAccountV3 (qb q, h ct, h n, v3 [a; b; c; d; e; f; g; i; j], zs ctor, h ch, h salt)
  | ["l1h"; q; c; sel; n; cd] -> L1Handler (qb q, h c, h sel, h n, zs cd)
  | ["unv"; hs] -> Unverified (qb hs)
  | _ -> failwith ("txspec " ^ s)

let pairs (s : string) : (z * z) list =
  if s = "-" || s = "" then [] else
  List.map (fun it -> match String.split_on_char ':' it with
    | [a; b] -> (z_of_hex a, z_of_hex b) | _ -> failwith ("pair " ^ it)) (String.split_on_char ';' s)

let parse_storage (s : string) : (z * (z * z) list) list =
  if s = "-" || s = "" then [] else
  List.map (fun it -> match String.split_on_char ':' it with
    | [a; kvs] ->
        let xs = zl '+' kvs in
        let rec pr = function [] -> [] | k :: v :: r -> (k, v) :: pr r | _ -> failwith "sto kv" in
        (z_of_hex a, pr xs)
    | _ -> failwith ("sto " ^ it)) (String.split_on_char ';' s)

let parse_txrec (s : string) : txrec =
  match String.split_on_char '~' s with
  | [spec; sg; hs] -> { t_body = parse_tx spec; t_sig = zs sg; t_hash = TC (z_of_hex hs) }
  | _ -> failwith ("t= " ^ s)

let parse_receipt (s : string) : receipt =
  match String.split_on_char '~' s with
  | [th; fee; msgs; rev; g1; g2; evs] ->
      let msgs = if msgs = "-" then [] else List.map (fun m -> match String.split_on_char ':' m with
        | [f; t; p] -> { m_from = z_of_hex f; m_to = z_of_hex t; m_payload = zl '+' p }
        | _ -> failwith "msg") (String.split_on_char ';' msgs) in
      let evs = if evs = "-" then [] else List.map (fun e -> match String.split_on_char ':' e with
        | [f; k; d] -> { e_from = z_of_hex f; e_keys = zl '+' k; e_data = zl '+' d }
        | _ -> failwith "event") (String.split_on_char ';' evs) in
      { r_txhash = TC (z_of_hex th); r_fee = z_of_hex fee; r_msgs = msgs;
        r_revert = (if rev = "-" then None else Some (z_of_hex rev));
        r_l1gas = z_of_hex g1; r_l1datagas = z_of_hex g2; r_events = evs }
  | _ -> failwith ("r= " ^ s)

let parse_block (toks : string list) : block =
  let get k = let p = k ^ "=" in let n = String.length p in
    List.filter_map (fun t -> if String.length t >= n && String.sub t 0 n = p
                              then Some (String.sub t n (String.length t - n)) else None) toks in
  let one k = match get k with [v] -> v | _ -> failwith ("key " ^ k) in
  let opt k = match get k with [v] -> v | [] -> "-" | _ -> failwith ("key " ^ k) in
  let h k = z_of_hex (one k) in
  let g = match zs (one "g") with [a; b; c; d; e; f] -> (a, b, c, d, e, f) | _ -> failwith "g" in
  let (g1, g2, g3, g4, g5, g6) = g in
  let ver = match List.map (fun x -> z_of_int (int_of_string x)) (String.split_on_char '.' (one "ver")) with
    | [a; b; c] -> ((a, b), c) | _ -> failwith "ver" in
  let hdr = { h_number = h "num"; h_state_root = TC (h "root"); h_sequencer = h "seq"; h_timestamp = h "ts";
              h_tx_count = h "txc"; h_event_count = h "evc"; h_blob = (one "blob" = "1");
              h_l1_gas_wei = g1; h_l1_gas_fri = g2; h_l1_data_wei = g3; h_l1_data_fri = g4; h_l2_wei = g5; h_l2_fri = g6;
              h_version_str = h "vs"; h_ver = ver; h_parent = TC (h "parent") } in
  let d = { sd_deployed = pairs (opt "dep"); sd_replaced = pairs (opt "rep"); sd_nonces = pairs (opt "non");
            sd_storage = parse_storage (opt "sto"); sd_declared_v0 = zs (opt "v0");
            sd_declared_v1 = pairs (opt "dec"); sd_migrated = pairs (opt "mig") } in
  { b_hdr = hdr; b_txs = List.map parse_txrec (get "t"); b_rcpts = List.map parse_receipt (get "r");
    b_diff = d; b_hash = TC Z0; b_old_root = TC Z0 }

(* C01-style state diff items: dep:a:c rep:a:c non:a:n sto:a:k:v dec:c:casm mig:c:casm *)
let parse_state_block (items : string list) : diff =
  let dep = ref [] and rep = ref [] and non = ref [] and sto = ref [] and dec = ref [] and mig = ref [] in
  List.iter (fun it -> match String.split_on_char ':' it with
    | ["dep"; a; c] -> dep := !dep @ [(z_of_hex a, z_of_hex c)]
    | ["rep"; a; c] -> rep := !rep @ [(z_of_hex a, z_of_hex c)]
    | ["non"; a; n] -> non := !non @ [(z_of_hex a, z_of_hex n)]
    | ["sto"; a; k; v] ->
        let a = z_of_hex a in
        let cur = try List.assoc a !sto with Not_found -> [] in
        sto := (List.remove_assoc a !sto) @ [(a, cur @ [(z_of_hex k, z_of_hex v)])]
    | ["dec"; c; h] -> dec := !dec @ [(z_of_hex c, z_of_hex h)]
    | ["mig"; c; h] -> mig := !mig @ [(z_of_hex c, z_of_hex h)]
    | _ -> failwith ("state item " ^ it)) items;
  { d_deployed = !dep; d_replaced = !rep; d_nonces = !non; d_storage = !sto; d_declared = !dec; d_migrated = !mig }

let () =
  read_lines (fun line ->
    (match words line with
    | ["tx"; chain; spec] ->
        (match parse_tx spec with
         | Unverified _ -> print_endline "hash none"
         | t -> print_endline ("hash " ^ show_term (tx_hash (z_of_hex chain) t)))
    | "block" :: toks ->
        let b = parse_block toks in
        let h = b.b_hdr in
        let z i = z_of_int i in
        let ge a b c = ver_ge h.h_ver ((z a, z b), z c) in
        if ge 0 13 2 then begin
          print_endline ("txc " ^ show_term (tx_commitment (ge 0 13 4) b.b_txs));
          print_endline ("evc " ^ show_term (event_commitment b.b_rcpts))
        end else begin
          print_endline ("txc " ^ show_term (tx_commitment_ped (ge 0 11 1) b.b_txs));
          print_endline ("evc " ^ show_term (event_commitment_ped b.b_rcpts))
        end;
        print_endline ("rcc " ^ show_term (receipt_commitment b.b_rcpts));
        print_endline ("sdh " ^ show_term (sd_hash b.b_diff));
        print_endline ("sdl " ^ hex_of_z (sd_length b.b_diff));
        print_endline ("cc " ^ hex_of_z (concat_counts h.h_tx_count h.h_event_count (sd_length b.b_diff) h.h_blob));
        print_endline ("gph " ^ show_term (gas_prices_hash h));
        print_endline ("bh " ^ (match block_hash b with Some t -> show_term t | None -> "none"))
    | "block07" :: chain :: toks ->
        print_endline ("bh07 " ^ show_term (block_hash_pre07 (z_of_hex chain) (parse_block toks)))
    | "state" :: ver :: rest ->
        let blocks = List.map words (String.split_on_char '|' (String.concat " " rest)) in
        let ds = List.map parse_state_block blocks in
        List.iter (fun st -> print_endline ("root " ^ show_term (commitment (ver = "pre") st))) (s_run true empty_state ds)
    | _ -> failwith ("bad request: " ^ line));
    print_endline "end"; flush stdout)
