(* C02 oracle. One request per line, fields separated by blanks; numbers are hex without 0x; lists are
   comma separated ("-" = empty).
   tx <chain> <txspec>            -> "hash <term>"
   block <key=value ...>          -> "txc <term>" "evc <term>" "rcc <term>" "sdh <term>" "sdl <hex>" "cc <hex>"
                                     "gph <term>" "bh <term>|none"
   block07 <chain> <key=value ...> -> "bh07 <term>"  (pre-0.7 hash format of early mainnet / goerli blocks)
   state <pre|post> <block> | ... -> per block "root <term>" (C01's state model: commitment after each diff)
   class c=<classspec>            -> "ch <term>"  (the Sierra class hash term; Keccak of the ABI answered by the harness)
   accept from=<slot> to=<slot|-> chain=<hex> <block keys> -> "verdict accept|reject"
        the EXTRACTED accept_ev decides, on the fields juno was given; its hash-term evaluation [ev] is answered
        by the harness: the oracle prints "eval <term>" "end" and reads "val <hex>" (as often as accept_ev asks);
        slot 0 is the empty chain; an accepted block's resulting chain state is stored in slot <to>
   explain from=<slot> chain=<hex> <block keys> -> "checks su=b cls=b rm=b txh=b bh=b succ=b applicable=b roots=b casm=b" (the conjuncts of accept_ev)
   vbh chain=<hex> <block keys>   -> "verdict accept|reject"  (verify_block_hash: receipts pairing, tx hashes, block hash)
   reset                          -> forget all slots
   every reply ends with "end".
   txspec (fields separated by '|'):
     inv0|q|contract|selector|maxfee|calldata          inv1|q|sender|maxfee|nonce|calldata
     inv3|q|sender|nonce|V3|acctdeploy|calldata|proof  dcl1|q|sender|maxfee|nonce|class
     dcl2|q|sender|maxfee|nonce|class|compiled         dcl3|q|sender|nonce|V3|acctdeploy|class|compiled
     dac1|q|contract|maxfee|nonce|class|salt|ctor      dac3|q|contract|nonce|V3|ctor|class|salt
     l1h|q|contract|selector|nonce|calldata            unv|has_sig   (hash not recomputed by juno: "hash none")
     V3 = tip|l1amount|l1price|l2amount|l2price|l1data("-" or amount:price)|paymaster|nonce_da|fee_da
   block keys: num root seq ts txc evc blob g=(l1wei,l1fri,dwei,dfri,l2wei,l2fri) vs ver=(a.b.c decimal) parent
     present=0|1 (both price objects non-nil; default 1)  hash= oldroot= suhash= sunewroot= (declared values; default 0)
     c=<key>~C (Cairo-0 definition)  |  c=<key>~S~<version bytes hex>~<external>~<l1handler>~<constructor>~<abi bytes hex>~<abi keccak>~<program>
        entry points: sel:idx;sel:idx ("-" none)   program: a,b,c ("-" empty)   byte strings: hex, "-" empty
     t=<txspec>~<sig>~<hash>             (repeated, in order)
     r=<txhash>~<fee>~<msgs>~<revert>~<l1gas>~<l1datagas>~<events>   (repeated)
        msgs: from:to:payload;...  ("-" none; payload items '+' separated, "-" empty)   revert: "-" or keccak hex
        events: from:keys:data;... (keys/data '+' separated)
     dep= rep= non= dec= mig=  a:b;a:b     v0= a,b      sto= addr:k+v+k+v;addr:-  *)
(* hex -> Z without intermediate bit lists (shadows common.ml's z_of_hex; same function) *)
let z_of_hex (s : string) : z =
  let neg = String.length s > 0 && s.[0] = '-' in
  let start = if neg then 1 else 0 in
  let acc = ref None in
  for i = start to String.length s - 1 do
    let v = hexval s.[i] in
    List.iter (fun m ->
      let b = v land m <> 0 in
      acc := (match !acc with
              | None -> if b then Some XH else None
              | Some p -> Some (if b then XI p else XO p))) [8; 4; 2; 1]
  done;
  match !acc with None -> Z0 | Some p -> if neg then Zneg p else Zpos p

let show_term (t : term) : string =
  let buf = Buffer.create 4096 in
  let rec go (t : term) : unit = match t with
    | TC z -> Buffer.add_string buf "(C "; Buffer.add_string buf (hex_of_z z); Buffer.add_char buf ')'
    | TPed (a, b) -> Buffer.add_string buf "(P "; go a; Buffer.add_char buf ' '; go b; Buffer.add_char buf ')'
    | TPos2 (a, b) -> Buffer.add_string buf "(S "; go a; Buffer.add_char buf ' '; go b; Buffer.add_char buf ')'
    | TPosN l -> Buffer.add_string buf "(SN "; list l; Buffer.add_char buf ')'
    | TPedN l -> Buffer.add_string buf "(PN "; list l; Buffer.add_char buf ')'
    | TAddLen (a, n) -> Buffer.add_string buf "(A "; go a; Buffer.add_char buf ' ';
        Buffer.add_string buf (string_of_int (int_of_nat n)); Buffer.add_char buf ')'
    | TPath p -> Buffer.add_string buf "(B ";
        (if p = [] then Buffer.add_char buf '-' else List.iter (fun b -> Buffer.add_char buf (if b then '1' else '0')) p);
        Buffer.add_char buf ')'
  and list (l : term list) : unit = match l with
    | [] -> ()
    | [x] -> go x
    | x :: r -> go x; Buffer.add_char buf ' '; list r in
  go t; Buffer.contents buf

let zl (sep : char) (s : string) : z list =
  if s = "-" || s = "" then [] else List.map z_of_hex (String.split_on_char sep s)
let zs = zl ','
let qb s = (s = "1")

let v3 = function
  | [tip; l1a; l1p; l2a; l2p; l1d; pm; nda; fda] ->
      { v_tip = z_of_hex tip;
        v_l1 = { rb_amount = z_of_hex l1a; rb_price = z_of_hex l1p };
        v_l2 = { rb_amount = z_of_hex l2a; rb_price = z_of_hex l2p };
        v_l1d = (if l1d = "-" then None else match String.split_on_char ':' l1d with
                 | [a; p] -> Some { rb_amount = z_of_hex a; rb_price = z_of_hex p } | _ -> failwith "l1d");
        v_paymaster = zs pm; v_nonce_da = z_of_hex nda; v_fee_da = z_of_hex fda }
  | _ -> failwith "v3"

let parse_tx (s : string) : tx =
  let h = z_of_hex in
  match String.split_on_char '|' s with
  | ["inv0"; q; c; sel; mf; cd] -> InvokeV0 (qb q, h c, h sel, h mf, zs cd)
  | ["inv1"; q; snd; mf; n; cd] -> InvokeV1 (qb q, h snd, h mf, h n, zs cd)
  | "inv3" :: q :: snd :: n :: a :: b :: c :: d :: e :: f :: g :: i :: j :: [ad; cd; pf] ->
      InvokeV3 (qb q, h snd, h n, v3 [a; b; c; d; e; f; g; i; j], zs ad, zs cd, zs pf)
  | ["dcl1"; q; snd; mf; n; ch] -> DeclareV1 (qb q, h snd, h mf, h n, h ch)
  | ["dcl2"; q; snd; mf; n; ch; cc] -> DeclareV2 (qb q, h snd, h mf, h n, h ch, h cc)
  | "dcl3" :: q :: snd :: n :: a :: b :: c :: d :: e :: f :: g :: i :: j :: [ad; ch; cc] ->
      DeclareV3 (qb q, h snd, h n, v3 [a; b; c; d; e; f; g; i; j], zs ad, h ch, h cc)
  | ["dac1"; q; c; mf; n; ch; salt; ctor] -> DeployAccountV1 (qb q, h c, h mf, h n, h ch, h salt, zs ctor)
  | "dac3" :: q :: ct :: n :: a :: b :: c :: d :: e :: f :: g :: i :: j :: [ctor; ch; salt] ->
      DeployAccountV3 (qb q, h ct, h n, v3 [a; b; c; d; e; f; g; i; j], zs ctor, h ch, h salt)
  | ["l1h"; q; c; sel; n; cd] -> L1Handler (qb q, h c, h sel, h n, zs cd)
  | ["unv"; hs] -> Unverified (qb hs)
  | _ -> failwith ("txspec " ^ s)

let pairs (s : string) : (z * z) list =
  if s = "-" || s = "" then [] else
  List.map (fun it -> match String.split_on_char ':' it with
    | [a; b] -> (z_of_hex a, z_of_hex b) | _ -> failwith ("pair " ^ it)) (String.split_on_char ';' s)

let parse_storage (s : string) : (z * (z * z) list) list =
  if s = "-" || s = "" then [] else
  List.map (fun it -> match String.split_on_char ':' it with
    | [a; kvs] ->
        let xs = zl '+' kvs in
        let rec pr = function [] -> [] | k :: v :: r -> (k, v) :: pr r | _ -> failwith "sto kv" in
        (z_of_hex a, pr xs)
    | _ -> failwith ("sto " ^ it)) (String.split_on_char ';' s)

let parse_txrec (s : string) : txrec =
  match String.split_on_char '~' s with
  | [spec; sg; hs] -> { t_body = parse_tx spec; t_sig = zs sg; t_hash = TC (z_of_hex hs) }
  | _ -> failwith ("t= " ^ s)

let parse_receipt (s : string) : receipt =
  match String.split_on_char '~' s with
  | [th; fee; msgs; rev; g1; g2; evs] ->
      let msgs = if msgs = "-" then [] else List.map (fun m -> match String.split_on_char ':' m with
        | [f; t; p] -> { m_from = z_of_hex f; m_to = z_of_hex t; m_payload = zl '+' p }
        | _ -> failwith "msg") (String.split_on_char ';' msgs) in
      let evs = if evs = "-" then [] else List.map (fun e -> match String.split_on_char ':' e with
        | [f; k; d] -> { e_from = z_of_hex f; e_keys = zl '+' k; e_data = zl '+' d }
        | _ -> failwith "event") (String.split_on_char ';' evs) in
      { r_txhash = TC (z_of_hex th); r_fee = z_of_hex fee; r_msgs = msgs;
        r_revert = (if rev = "-" then None else Some (z_of_hex rev));
        r_l1gas = z_of_hex g1; r_l1datagas = z_of_hex g2; r_events = evs }
  | _ -> failwith ("r= " ^ s)

let bytes_of_hex (s : string) : z list =
  if s = "-" || s = "" then [] else
  List.init (String.length s / 2) (fun i -> z_of_int (hexval s.[2*i] * 16 + hexval s.[2*i+1]))

let parse_eps (s : string) : entry_point list =
  List.map (fun (a, b) -> { ep_selector = a; ep_index = b }) (pairs s)

(* a delivered class definition, and (for Sierra) the (ABI bytes, Keccak) pair the harness computed *)
let parse_class (s : string) : (z * cdef) * (z list * z) option =
  match String.split_on_char '~' s with
  | [k; "C"] -> ((z_of_hex k, Cairo0), None)
  | [k; "S"; ver; ext; l1h; ctor; abi; abik; prog] ->
      let a = bytes_of_hex abi in
      ((z_of_hex k, Sierra { sc_version = bytes_of_hex ver; sc_external = parse_eps ext; sc_l1handler = parse_eps l1h;
                             sc_constructor = parse_eps ctor; sc_abi = a; sc_program = zs prog }),
       Some (a, z_of_hex abik))
  | _ -> failwith ("c= " ^ s)

let parse_block (toks : string list) : block =
  let get k = let p = k ^ "=" in let n = String.length p in
    List.filter_map (fun t -> if String.length t >= n && String.sub t 0 n = p
                              then Some (String.sub t n (String.length t - n)) else None) toks in
  let one k = match get k with [v] -> v | _ -> failwith ("key " ^ k) in
  let opt k = match get k with [v] -> v | [] -> "-" | _ -> failwith ("key " ^ k) in
  let h k = z_of_hex (one k) in
  let g = match zs (one "g") with [a; b; c; d; e; f] -> (a, b, c, d, e, f) | _ -> failwith "g" in
  let (g1, g2, g3, g4, g5, g6) = g in
  let ver = match List.map (fun x -> z_of_int (int_of_string x)) (String.split_on_char '.' (one "ver")) with
    | [a; b; c] -> ((a, b), c) | _ -> failwith "ver" in
  let hdr = { h_number = h "num"; h_state_root = TC (h "root"); h_sequencer = h "seq"; h_timestamp = h "ts";
              h_tx_count = h "txc"; h_event_count = h "evc"; h_blob = (one "blob" = "1");
              h_l1_gas_wei = g1; h_l1_gas_fri = g2; h_l1_data_wei = g3; h_l1_data_fri = g4; h_l2_wei = g5; h_l2_fri = g6;
              h_prices_present = (opt "present" <> "0");
              h_version_str = h "vs"; h_ver = ver; h_parent = TC (h "parent") } in
  let d = { sd_deployed = pairs (opt "dep"); sd_replaced = pairs (opt "rep"); sd_nonces = pairs (opt "non");
            sd_storage = parse_storage (opt "sto"); sd_declared_v0 = zs (opt "v0");
            sd_declared_v1 = pairs (opt "dec"); sd_migrated = pairs (opt "mig") } in
  let tz k = match get k with [v] -> TC (z_of_hex v) | [] -> TC Z0 | _ -> failwith ("key " ^ k) in
  { b_hdr = hdr; b_txs = List.map parse_txrec (get "t"); b_rcpts = List.map parse_receipt (get "r");
    b_diff = d; b_hash = tz "hash"; b_old_root = tz "oldroot"; b_su_hash = tz "suhash"; b_su_new_root = tz "sunewroot";
    b_classes = List.map (fun c -> fst (parse_class c)) (get "c") }

(* the Keccak values the harness computed for the ABI texts of a request *)
let kec_table (toks : string list) : (z list * z) list =
  List.filter_map (fun t -> if String.length t > 2 && String.sub t 0 2 = "c=" then
      snd (parse_class (String.sub t 2 (String.length t - 2))) else None) toks
let kec_of (tbl : (z list * z) list) (bs : z list) : z =
  try List.assoc bs tbl with Not_found -> failwith "keccak of an ABI text the harness did not send"

(* C01-style state diff items: dep:a:c rep:a:c non:a:n sto:a:k:v dec:c:casm mig:c:casm *)
let parse_state_block (items : string list) : diff =
  let dep = ref [] and rep = ref [] and non = ref [] and sto = ref [] and dec = ref [] and mig = ref [] in
  List.iter (fun it -> match String.split_on_char ':' it with
    | ["dep"; a; c] -> dep := !dep @ [(z_of_hex a, z_of_hex c)]
    | ["rep"; a; c] -> rep := !rep @ [(z_of_hex a, z_of_hex c)]
    | ["non"; a; n] -> non := !non @ [(z_of_hex a, z_of_hex n)]
    | ["sto"; a; k; v] ->
        let a = z_of_hex a in
        let cur = try List.assoc a !sto with Not_found -> [] in
        sto := (List.remove_assoc a !sto) @ [(a, cur @ [(z_of_hex k, z_of_hex v)])]
    | ["dec"; c; h] -> dec := !dec @ [(z_of_hex c, z_of_hex h)]
    | ["mig"; c; h] -> mig := !mig @ [(z_of_hex c, z_of_hex h)]
    | _ -> failwith ("state item " ^ it)) items;
  { d_deployed = !dep; d_replaced = !rep; d_nonces = !non; d_storage = !sto; d_declared = !dec; d_migrated = !mig }

(* ---------- the evaluation of hash terms handed to the extracted accept_ev: answered by the harness (juno's
   Pedersen / Poseidon); canonical constants evaluate to themselves ---------- *)
let memo : (string, term) Hashtbl.t = Hashtbl.create 4096
let ev (t : term) : term =
  match t with
  | TC Z0 -> t
  | TC (Zpos _ as z) when Z.ltb z felt_P -> t
  | _ ->
      let s = show_term t in
      (match Hashtbl.find_opt memo s with
       | Some v -> v
       | None ->
           if Hashtbl.length memo > 20000 then Hashtbl.reset memo;
           print_endline ("eval " ^ s); print_endline "end"; flush stdout;
           let l = input_line stdin in
           let v = match words l with ["val"; h] -> TC (z_of_hex h) | _ -> failwith ("expected val, got " ^ l) in
           Hashtbl.replace memo s v; v)

let slots : (int, chain_state) Hashtbl.t = Hashtbl.create 16
let slot (s : string) : chain_state =
  let i = int_of_string s in
  if i = 0 then empty_chain else
  (try Hashtbl.find slots i with Not_found -> failwith ("empty slot " ^ s))
let arg (k : string) (t : string) : string =
  let p = k ^ "=" in let n = String.length p in
  if String.length t >= n && String.sub t 0 n = p then String.sub t n (String.length t - n) else failwith ("expected " ^ p ^ " got " ^ t)

let () =
  read_lines (fun line ->
    (match words line with
    | ["tx"; chain; spec] ->
        (match parse_tx spec with
         | Unverified _ -> print_endline "hash none"
         | t -> print_endline ("hash " ^ show_term (tx_hash (z_of_hex chain) t)))
    | "block" :: toks ->
        let b = parse_block toks in
        let h = b.b_hdr in
        let z i = z_of_int i in
        let ge a b c = ver_ge h.h_ver ((z a, z b), z c) in
        if ge 0 13 2 then begin
          print_endline ("txc " ^ show_term (tx_commitment (ge 0 13 4) b.b_txs));
          print_endline ("evc " ^ show_term (event_commitment b.b_rcpts))
        end else begin
          print_endline ("txc " ^ show_term (tx_commitment_ped (ge 0 11 1) b.b_txs));
          print_endline ("evc " ^ show_term (event_commitment_ped b.b_rcpts))
        end;
        print_endline ("rcc " ^ show_term (receipt_commitment b.b_rcpts));
        print_endline ("sdh " ^ show_term (sd_hash b.b_diff));
        print_endline ("sdl " ^ hex_of_z (sd_length b.b_diff));
        print_endline ("cc " ^ hex_of_z (concat_counts h.h_tx_count h.h_event_count (sd_length b.b_diff) h.h_blob));
        print_endline ("gph " ^ show_term (gas_prices_hash h));
        print_endline ("bh " ^ (match block_hash b with Some t -> show_term t | None -> "none"))
    | "block07" :: chain :: toks ->
        print_endline ("bh07 " ^ show_term (block_hash_pre07 (z_of_hex chain) (parse_block toks)))
    | ["class"; c] ->
        let c = String.sub c 2 (String.length c - 2) in
        (match parse_class c with
         | ((_, Sierra sc), Some kv) -> print_endline ("ch " ^ show_term (class_hash (kec_of [kv]) sc))
         | _ -> failwith "class: not a Sierra definition")
    | "accept" :: from :: dest :: chain :: toks ->
        let b = parse_block toks in
        let cs = slot (arg "from" from) in
        (match accept_ev ev (kec_of (kec_table toks)) (z_of_hex (arg "chain" chain)) cs b with
         | Some cs' ->
             (match arg "to" dest with "-" -> () | d -> Hashtbl.replace slots (int_of_string d) cs');
             print_endline "verdict accept"
         | None -> print_endline "verdict reject")
    | "explain" :: from :: chain :: toks ->
        let b = parse_block toks in
        let cs = slot (arg "from" from) in
        let kec = kec_of (kec_table toks) and ch = z_of_hex (arg "chain" chain) in
        let f x = if x then "1" else "0" in
        print_endline (Printf.sprintf "checks su=%s cls=%s rm=%s txh=%s bh=%s succ=%s applicable=%s roots=%s casm=%s"
          (f (su_ok ev b)) (f (classes_ok ev kec b)) (f (receipts_match ev b.b_txs b.b_rcpts)) (f (tx_hashes_ok ev ch b))
          (f (block_hash_ok ev b)) (f (succession_ok ev cs b)) (f (diff_applicable cs.cs_state b.b_diff))
          (f (roots_ok ev cs b)) (f (casm_ok cs b)))
    | "vbh" :: chain :: toks ->
        let b = parse_block toks in
        print_endline (if verify_block_hash ev (z_of_hex (arg "chain" chain)) b then "verdict accept" else "verdict reject")
    | ["reset"] -> Hashtbl.reset slots; Hashtbl.reset memo
    | "state" :: ver :: rest ->
        let blocks = List.map words (String.split_on_char '|' (String.concat " " rest)) in
        let ds = List.map parse_state_block blocks in
        List.iter (fun st -> print_endline ("root " ^ show_term (commitment (ver = "pre") st))) (s_run true empty_state ds)
    | _ -> failwith ("bad request: " ^ line));
    print_endline "end"; flush stdout)
