(* C03 oracle.  Protocol (numbers in hex, '-' = empty list / not found):
     case <new|old> <addrs> <slots> <classes> | <op>;<op>;...
        op = R  |  S <deploy a:c,..> <replace a:c,..> <nonce a:v,..> <store a:k:v,..> <decl h,..> <delivered h,..>
             (delivered = class hashes whose definition comes with the block for its deployed contracts, not declared by it)
     replies   ops <bit per op: store valid / revert succeeded>
               sysg <bit per op: sys_guarded of the sequence up to and including the op>
               height <number of blocks of the resulting chain>
               t <n> <answers>     truth after block n          (for every n < height)
               m <n> <answers>     model read at block n on the final model state
               h <answers>         model head read
               end
     chk <n> <answers>   evaluates the property predicate c03_ok of the last case on observed answers:
               replies  ok | bad <index of the first wrong answer>
   Answers are listed in universe order: class(a) for all a, nonce(a) for all a, slot(a,k) for all a,k,
   declared(h) for all h.
     ccase <classes h,..> | <cop>;<cop>;...      the CASM-metadata machine (crun)
        cop = R  |  S <v2 0|1> <declared h:c:v2hash,..> <migrated h:c,..>
     replies   ops / height / t <n> / m <n> / h as above, answers = compiled class hash of every listed class
     cchk <n> <answers>   evaluates casm_ok of the last ccase: ok | bad <index> *)
let hx s = n_of_hex s
let list_of s = if s = "-" then [] else String.split_on_char ',' s
let pair s = match String.split_on_char ':' s with [a; b] -> (hx a, hx b) | _ -> failwith ("pair " ^ s)
let triple s = match String.split_on_char ':' s with [a; b; c] -> ((hx a, hx b), hx c) | _ -> failwith ("triple " ^ s)

let triple3 s = match String.split_on_char ':' s with [a; b; c] -> (hx a, (hx b, hx c)) | _ -> failwith ("triple3 " ^ s)
let parse_cop (s : string) : cop = match words s with
  | ["R"] -> CRevert
  | ["S"; v2; decl; migr] ->
      CStore { c_v2 = (v2 = "1"); c_decl = List.map triple3 (list_of decl); c_migr = List.map pair (list_of migr) }
  | _ -> failwith ("cop: " ^ s)

let parse_op (s : string) : op = match words s with
  | ["R"] -> Revert
  | ["S"; dep; rep; non; sto; dec; dlv] ->
      Store { d_deploy = List.map pair (list_of dep); d_replace = List.map pair (list_of rep);
              d_nonce = List.map pair (list_of non); d_store = List.map triple (list_of sto);
              d_decl = List.map hx (list_of dec); d_deliv = List.map hx (list_of dlv) }
  | _ -> failwith ("op: " ^ s)

let show_ans = function Found v -> hex_of_n v | NotFound -> "-"
let parse_ans s = if s = "-" then NotFound else Found (hx s)

let queries addrs slots classes : query list =
  List.map (fun a -> QClass a) addrs @ List.map (fun a -> QNonce a) addrs
  @ List.concat_map (fun a -> List.map (fun k -> QSlot (a, k)) slots) addrs
  @ List.map (fun h -> QDecl h) classes

(* per-op outcome, recomputed by stepping (the extracted run only returns the final state) *)
let last_rc : diff list ref = ref []
let last_qs : query list ref = ref []
let last_crc : cblk list ref = ref []
let last_chs : n list ref = ref []

let () =
  read_lines (fun line ->
    match words line with
    | "case" :: backend :: addrs :: slots :: classes :: "|" :: _ ->
        let i = String.index line '|' in
        let body = String.sub line (i + 1) (String.length line - i - 1) in
        let ops = List.map parse_op (split_on ';' body) in
        let run = if backend = "new" then run_new else run_old in
        (* outcome bits: run every prefix and compare chain lengths / states *)
        let guarded = if backend = "new" then sys_guarded_new else sys_guarded_old in
        let bits = Buffer.create 16 and sysg = Buffer.create 16 in
        let prev = ref (run []) in
        let acc = ref [] in
        List.iter (fun o ->
          acc := !acc @ [o];
          Buffer.add_char sysg (if guarded !acc then '1' else '0');
          let cur = run !acc in
          let changed = (match o with
            | Store _ -> List.length (snd cur) = List.length (snd !prev) + 1
            | Revert -> List.length (snd cur) + 1 = List.length (snd !prev)) in
          Buffer.add_char bits (if changed then '1' else '0');
          prev := cur) ops;
        let (s, rc) = !prev in
        let qs = queries (List.map hx (list_of addrs)) (List.map hx (list_of slots)) (List.map hx (list_of classes)) in
        last_rc := rc; last_qs := qs;
        print_endline ("ops " ^ (if Buffer.length bits = 0 then "-" else Buffer.contents bits));
        print_endline ("sysg " ^ (if Buffer.length sysg = 0 then "-" else Buffer.contents sysg));
        let h = List.length rc in
        print_endline ("height " ^ string_of_int h);
        let rd = if backend = "new" then read_new else read_old in
        for n = 0 to h - 1 do
          let nn = n_of_int n in
          let a = truth_at rc nn in
          print_endline ("t " ^ string_of_int n ^ " " ^ String.concat " " (List.map (fun q -> show_ans (lookup a q)) qs));
          print_endline ("m " ^ string_of_int n ^ " " ^ String.concat " " (List.map (fun q -> show_ans (rd s q nn)) qs))
        done;
        print_endline ("h " ^ String.concat " " (List.map (fun q -> show_ans (read_head s q)) qs));
        print_endline "end";
        flush stdout
    | "ccase" :: classes :: "|" :: _ ->
        let i = String.index line '|' in
        let body = String.sub line (i + 1) (String.length line - i - 1) in
        let ops = List.map parse_cop (split_on ';' body) in
        let bits = Buffer.create 16 in
        let prev = ref (crun []) in
        let acc = ref [] in
        List.iter (fun o ->
          acc := !acc @ [o];
          let cur = crun !acc in
          let changed = (match o with
            | CStore _ -> List.length (snd cur) = List.length (snd !prev) + 1
            | CRevert -> List.length (snd cur) + 1 = List.length (snd !prev)) in
          Buffer.add_char bits (if changed then '1' else '0');
          prev := cur) ops;
        let (m, rc) = !prev in
        let hs = List.map hx (list_of classes) in
        last_crc := rc; last_chs := hs;
        print_endline ("ops " ^ (if Buffer.length bits = 0 then "-" else Buffer.contents bits));
        let h = List.length rc in
        print_endline ("height " ^ string_of_int h);
        for n = 0 to h - 1 do
          let nn = n_of_int n in
          print_endline ("t " ^ string_of_int n ^ " " ^ String.concat " " (List.map (fun c -> show_ans (ans_of (ctruth_at rc nn c))) hs));
          print_endline ("m " ^ string_of_int n ^ " " ^ String.concat " " (List.map (fun c -> show_ans (casm_read m c nn)) hs))
        done;
        print_endline ("h " ^ String.concat " " (List.map (fun c -> show_ans (casm_head m c)) hs));
        print_endline "end";
        flush stdout
    | "cchk" :: n :: answers ->
        let nn = n_of_int (int_of_string n) in
        let rec go i hs ans = match hs, ans with
          | [], [] -> print_endline "ok"
          | c :: hr, a :: ar -> if casm_ok !last_crc c nn (parse_ans a) then go (i + 1) hr ar else print_endline ("bad " ^ string_of_int i)
          | _, _ -> print_endline "bad -1" in
        go 0 !last_chs answers;
        flush stdout
    | "chk" :: n :: answers ->
        let nn = n_of_int (int_of_string n) in
        let rec go i qs ans = match qs, ans with
          | [], [] -> print_endline "ok"
          | q :: qr, a :: ar -> if c03_ok !last_rc q nn (parse_ans a) then go (i + 1) qr ar else print_endline ("bad " ^ string_of_int i)
          | _, _ -> print_endline "bad -1" in
        go 0 !last_qs answers;
        flush stdout
    | _ -> failwith ("line: " ^ line))
