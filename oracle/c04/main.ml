(* C04 oracle.  Protocol (numbers in hex, '-' = empty list):
     case <new|old> | <op>;<op>;...
        op = R
           | S <deploy a:c,..> <replace a:c,..> <nonce a:v,..> <store a:k:v,..> <decl h,..> <delivered h,..>
               <blockhash> <txs h[:msg],..> <v2 0|1> <casm h:c:v2hash,..> <migr h:c,..>
     replies   ops <bit per op: store accepted (valid_next) / revert succeeded>
               guard <per op: for S the legacy guard (no no-op zero write, or genesis) 1/0, for R '-'>
               sysg <per op: for S sys_guard (the block leaves the system contracts it writes to non-empty) 1/0, for R '-'>
               height <number of blocks>
               d <family> <entries>     decoded content of every index family of the model node,
                                        entries sorted by key: k.k.k=v separated by ','  ('-' if empty)
               end
   families: lstore a.k.b=v  lnonce a.b=v  lclass a.b=v  dh a=h  decl h=at  hdr n=hash  num hash=n
             txs n=h+h+..(_ if none)  txidx h=n.i  l1 msg=h  upd n=1  commit n=1  casm h=at.migr.v1(- if none).v2 *)
let hx s = n_of_hex s
let list_of s = if s = "-" then [] else String.split_on_char ',' s
let pair s = match String.split_on_char ':' s with [a; b] -> (hx a, hx b) | _ -> failwith ("pair " ^ s)
let triple s = match String.split_on_char ':' s with [a; b; c] -> ((hx a, hx b), hx c) | _ -> failwith ("triple " ^ s)
let triple3 s = match String.split_on_char ':' s with [a; b; c] -> (hx a, (hx b, hx c)) | _ -> failwith ("triple3 " ^ s)
let tx s = match String.split_on_char ':' s with
  | [h] -> (hx h, None) | [h; m] -> (hx h, Some (hx m)) | _ -> failwith ("tx " ^ s)

let parse_op (s : string) : nop = match words s with
  | ["R"] -> NRevert
  | ["S"; dep; rep; non; sto; dec; dlv; hash; txs; v2; casm; migr] ->
      NStore { b_hash = hx hash;
               b_diff = { d_deploy = List.map pair (list_of dep); d_replace = List.map pair (list_of rep);
                          d_nonce = List.map pair (list_of non); d_store = List.map triple (list_of sto);
                          d_decl = List.map hx (list_of dec); d_deliv = List.map hx (list_of dlv) };
               b_txs = List.map tx (list_of txs); b_commit = hx hash; b_bloom = N0;
               b_v2 = (v2 = "1"); b_casm = List.map triple3 (list_of casm); b_migr = List.map pair (list_of migr) }
  | _ -> failwith ("op: " ^ s)

let hk (k : n list) = String.concat "." (List.map hex_of_n k)
let dump name (show : 'a -> string) (m : (n list * 'a) list) =
  print_endline ("d " ^ name ^ " " ^
    (if m = [] then "-" else String.concat "," (List.map (fun (k, v) -> hk k ^ "=" ^ show v) m)))

let () =
  read_lines (fun line ->
    match words line with
    | "case" :: backend :: "|" :: _ ->
        let i = String.index line '|' in
        let body = String.sub line (i + 1) (String.length line - i - 1) in
        let ops = List.map parse_op (split_on ';' body) in
        let isnew = backend = "new" in
        let store = if isnew then store_new_node else store_old_node in
        let revert = if isnew then revert_new_node else revert_old_node in
        let bits = Buffer.create 16 and guard = Buffer.create 16 and sysg = Buffer.create 16 in
        let x = ref node_empty in
        List.iter (fun o ->
          (match o with
           | NStore b ->
               Buffer.add_char guard (if guard_old !x b then '1' else '0');
               Buffer.add_char sysg (if sys_guard !x.n_st b.b_diff then '1' else '0');
               Buffer.add_char bits (if valid_next !x b then '1' else '0')
           | NRevert ->
               Buffer.add_char guard '-';
               Buffer.add_char sysg '-';
               Buffer.add_char bits (match revert !x with Some _ -> '1' | None -> '0'));
          x := nstep store revert !x o) ops;
        let x = !x in
        print_endline ("ops " ^ (if Buffer.length bits = 0 then "-" else Buffer.contents bits));
        print_endline ("guard " ^ (if Buffer.length guard = 0 then "-" else Buffer.contents guard));
        print_endline ("sysg " ^ (if Buffer.length sysg = 0 then "-" else Buffer.contents sysg));
        print_endline ("height " ^ string_of_int (int_of_n x.n_st.s_next));
        dump "lstore" hex_of_n x.n_st.s_lstore; dump "lnonce" hex_of_n x.n_st.s_lnonce;
        dump "lclass" hex_of_n x.n_st.s_lclass; dump "dh" hex_of_n x.n_st.s_dh; dump "decl" hex_of_n x.n_st.s_decl;
        dump "hdr" hex_of_n x.n_hdr; dump "num" hex_of_n x.n_num;
        dump "txs" (fun l -> if l = [] then "_" else String.concat "+" (List.map (fun (h, _) -> hex_of_n h) l)) x.n_txs;
        dump "txidx" (fun (a, b) -> hex_of_n a ^ "." ^ hex_of_n b) x.n_txidx;
        dump "l1" hex_of_n x.n_l1;
        dump "upd" (fun _ -> "1") x.n_upd; dump "commit" (fun _ -> "1") x.n_commit;
        dump "casm" (fun md -> hex_of_n md.m_at ^ "." ^ hex_of_n md.m_migr ^ "." ^
                               (match md.m_v1 with Some v -> hex_of_n v | None -> "-") ^ "." ^ hex_of_n md.m_v2) x.n_casm;
        print_endline "end";
        flush stdout
    | _ -> failwith ("line: " ^ line))
