(* C05 oracle. One request per line, one reply line.
     reset | init ; <disk> ; <rf>      -> ok   (state every later request starts from)
     crash  W k ; op;op;...            -> <disk> # consistent ready covers ops_env ops_fresh cont snap_discipline
     fault  W k ; op;...  [; ? S ...]  -> <disk> # mem_covers stores(mem) stores(reinit) ops_env snap_discipline # <rf>
                                          (k beyond the last commit = the fault-free run)
     counts W ; op;...                 -> n1 n2 ...
     eval   W ; <disk>                 -> consistent ready covers windows_ok cont
   ops:  S num id parent keys | R | P keep_hist e | L h | N | G | U      (numbers in hex, keys k1_k2 or -)
   disk: h=..|st=..|l1=..|snap=..|win=..|F=f0/f1/.../f7  (see show_disk) *)

let hx = hex_of_n
let nh = n_of_hex

let split_c c s = if s = "-" || s = "" then [] else String.split_on_char c s

let parse_keys s = List.map nh (split_c '_' s)
let show_keys ks =
  let ks = List.sort_uniq compare (List.map hx ks) in
  if ks = [] then "-" else String.concat "_" ks

let cmp_hex a b =
  let la = String.length a and lb = String.length b in
  if la <> lb then compare la lb else compare a b

(* cols: n:k1_k2+n:k1 — canonical: one entry per n, keys unioned, sorted by n *)
let parse_cols s : (n * n list) list =
  List.map (fun e -> match String.split_on_char ':' e with
    | [a; ks] -> (nh a, parse_keys ks)
    | _ -> failwith "cols") (split_c '+' s)
let show_cols (c : (n * n list) list) =
  let tbl = Hashtbl.create 16 in
  List.iter (fun (a, ks) ->
    let k = hx a in
    let old = try Hashtbl.find tbl k with Not_found -> [] in
    Hashtbl.replace tbl k (ks @ old)) c;
  let l = Hashtbl.fold (fun k v acc -> if v = [] then acc else (k, v) :: acc) tbl [] in
  let l = List.sort (fun (a, _) (b, _) -> cmp_hex a b) l in
  if l = [] then "-" else String.concat "+" (List.map (fun (k, v) -> k ^ ":" ^ show_keys v) l)

let parse_block s : block = match String.split_on_char '.' s with
  | [a; b; c; ks] -> { b_num = nh a; b_id = nh b; b_parent = nh c; b_bloom = parse_keys ks }
  | _ -> failwith ("block: " ^ s)
let show_block (b : block) =
  String.concat "." [hx b.b_num; hx b.b_id; hx b.b_parent; show_keys b.b_bloom]

let show_fam (l : block list) =
  let l = List.sort_uniq (fun a b ->
    let c = cmp_hex (hx a.b_num) (hx b.b_num) in if c <> 0 then c else cmp_hex (hx a.b_id) (hx b.b_id)) l in
  if l = [] then "-" else String.concat "," (List.map show_block l)

let opt_show f = function None -> "-" | Some x -> f x

let show_rf (r : rfilter) =
  String.concat "~" [hx r.rf_from; hx r.rf_next; (if r.rf_err then "1" else "0"); show_cols r.rf_cols]
let parse_rf s : rfilter = match String.split_on_char '~' s with
  | [a; b; e; c] -> { rf_from = nh a; rf_next = nh b; rf_err = (e = "1"); rf_cols = parse_cols c }
  | _ -> failwith "rf"

let show_disk (d : disk) =
  let wins = List.sort (fun (a, _) (b, _) -> cmp_hex (hx a) (hx b)) d.d_windows in
  String.concat "|" [
    "h=" ^ opt_show hx d.d_height;
    "st=" ^ opt_show hx d.d_state;
    "l1=" ^ opt_show hx d.d_l1;
    "snap=" ^ opt_show show_rf d.d_snap;
    "win=" ^ (if wins = [] then "-" else String.concat "," (List.map (fun (a, c) -> hx a ^ "@" ^ show_cols c) wins));
    "F=" ^ String.concat "/" (List.map (fun f -> show_fam (d.d_fam f)) all_fams) ]

let fam_index (f : fam) : int = match f with
  | FHeader -> 0 | FHashNum -> 1 | FTxs -> 2 | FTxIdx -> 3 | FSU -> 4 | FCommit -> 5 | FClass -> 6 | FHist -> 7

let parse_opt f s = if s = "-" then None else Some (f s)

let parse_disk (s : string) : disk =
  let get pre =
    let l = String.split_on_char '|' s in
    let p = pre ^ "=" in
    let m = List.find (fun x -> String.length x >= String.length p && String.sub x 0 (String.length p) = p) l in
    String.sub m (String.length p) (String.length m - String.length p) in
  let fams = Array.of_list (List.map (fun fs -> List.map parse_block (split_c ',' fs))
                              (String.split_on_char '/' (get "F"))) in
  let wins = List.map (fun w -> match String.split_on_char '@' w with
    | [a; c] -> (nh a, parse_cols c) | _ -> failwith "win") (split_c ',' (get "win")) in
  { d_height = parse_opt nh (get "h"); d_fam = (fun f -> fams.(fam_index f));
    d_state = parse_opt nh (get "st"); d_windows = wins;
    d_snap = parse_opt parse_rf (get "snap"); d_l1 = parse_opt nh (get "l1") }

let parse_op (s : string) : op = match words s with
  | ["S"; a; b; c; ks] -> Store { b_num = nh a; b_id = nh b; b_parent = nh c; b_bloom = parse_keys ks }
  | ["R"] -> Revert
  | ["P"; kh; e] -> Prune (kh = "1", nh e)
  | ["L"; h] -> SetL1 (nh h)
  | ["N"] -> Snapshot
  | ["G"] -> Restart true
  | ["U"] -> Restart false
  | _ -> failwith ("op: " ^ s)

let b2s b = if b then "1" else "0"
let base = ref (disk0, rf0)

let () =
  read_lines (fun line ->
    let parts = List.map String.trim (String.split_on_char ';' line) in
    let parts = List.filter (fun x -> x <> "") parts in
    (match parts with
     | hd :: rest ->
       let st0 = !base in
       (match words hd with
        | ["reset"] -> base := (disk0, rf0); print_endline "ok"
        | ["init"] ->
            (match rest with
             | [d; m] -> base := (parse_disk d, parse_rf m); print_endline "ok"
             | _ -> print_endline "ERR init")
        | ["crash"; w; k] ->
            let w = nh w and k = nat_of_int (int_of_string k) in
            let ops = List.map parse_op rest in
            let d = crash_disk w ops k st0 in
            print_endline (show_disk d ^ " # " ^ String.concat " "
              [b2s (consistent w d); b2s (recover_ready w d); b2s (index_covers w d); b2s (ops_env w ops st0);
               b2s (ops_fresh w ops st0); b2s (cont d);
               b2s (snap_discipline ops (snap_pending (fst st0)))])
        | ["fault"; w; k] ->
            let w = nh w and k = nat_of_int (int_of_string k) in
            let isq x = String.length x > 0 && x.[0] = '?' in
            let ops = List.map parse_op (List.filter (fun x -> not (isq x)) rest) in
            let q = List.filter isq rest in
            let (d, m) = exec_fault w ops k st0 in
            let st = match q with
              | x :: _ ->
                 (match parse_op (String.sub x 1 (String.length x - 1)) with
                  | Store b -> b2s (stores w d m b) ^ " " ^ b2s (stores w d (reinit w d) b)
                  | _ -> "- -")
              | [] -> "- -" in
            print_endline (show_disk d ^ " # " ^ b2s (mem_covers w d m) ^ " " ^ st ^ " " ^ b2s (ops_env w ops st0)
                           ^ " " ^ b2s (snap_discipline ops (snap_pending (fst st0)))
                           ^ " # " ^ show_rf m)
        | ["counts"; w] ->
            let ops = List.map parse_op rest in
            print_endline (String.concat " " (List.map (fun x -> string_of_int (int_of_nat x)) (batch_counts (nh w) ops st0)))
        | ["eval"; w] ->
            let w = nh w in
            let d = parse_disk (String.concat ";" rest) in
            print_endline (String.concat " "
              [b2s (consistent w d); b2s (recover_ready w d); b2s (index_covers w d);
               b2s (match d.d_height with Some h -> windows_ok w h d | None -> d.d_windows = []);
               b2s (cont d)])
        | _ -> print_endline "ERR bad request")
     | [] -> print_endline "ERR empty");
    flush stdout)
