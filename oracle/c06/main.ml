(* C06 oracle: a stateful acceptor session around the extracted synchroniser model.
     new                      reset to the initial state                       -> ok
     ev <event>               step; state advances only when accepted          -> ok | rej
     q                        -> rv=<idle|run> obox=<n> canc=<0|1> loc=<ids> src=<ids>   (head first, '-' when empty)
     pred <final>|<log>|<trace>   history_ok on an observed history             -> t | f
     fair <fuel>              model's fair scheduler from the current state     -> conv <steps> | stuck <steps>
   blocks are written num:id:par:ok:storable (decimal). *)
let n s = n_of_int (int_of_string s)
let blk (s : string) : block = match String.split_on_char ':' s with
  | [a; b; c; d; e] -> { num = n a; bid = n b; par = n c; okb = (d = "1"); stb = (e = "1") }
  | _ -> failwith ("block: " ^ s)

let parse_event (ws : string list) : event = match ws with
  | ["ext"] -> SrcExtend
  | ["reorg"; d] -> SrcReorg (nat_of_int (int_of_string d))
  | ["fok"; h] -> FetchOk (n h)
  | ["ferr"; h] -> FetchErr (n h)
  | ["fcor"; h] -> FetchCorrupt (n h)
  | ["funs"; h] -> FetchUnstorable (n h)
  | ["lat"] -> FetchLatest
  | ["stale"; b] -> FetchStaleHead (blk b)
  | ["laterr"] -> FetchLatestErr
  | ["chk"; h] -> ReorgCheck (n h)
  | ["ver"; b] -> Verify (blk b)
  | ["verfail"; b] -> VerifyFail (blk b)
  | ["store"; b] -> StoreOk (blk b)
  | ["mism"; b] -> StoreParentMismatch (blk b)
  | ["sfail"; b] -> StoreFail (blk b)
  | ["rfok"] -> RevFetchOk
  | ["rferr"] -> RevFetchErr
  | ["rev"] -> RevertOne
  | ["rstop"] -> RevertStop
  | ["reset"] -> Reset
  | ["nreorg"] -> NotifyReorg
  | ["nhead"] -> NotifyNewHead
  | _ -> failwith ("event: " ^ String.concat " " ws)

let ids (l : block list) : string =
  if l = [] then "-" else String.concat "," (List.map (fun b -> string_of_int (int_of_n b.bid)) l)

let parse_list (f : string -> 'a) (s : string) : 'a list =
  let s = String.trim s in
  if s = "-" || s = "" then [] else List.map f (String.split_on_char ',' s)

let parse_log (s : string) : logent = match String.split_on_char '=' s with
  | ["a"; b] -> LApp (blk b) | ["r"; b] -> LRev (blk b) | _ -> failwith ("log: " ^ s)
let parse_out (s : string) : out = match String.split_on_char '=' s with
  | ["h"; b] -> ONewHead (blk b)
  | ["g"; a; b] -> OReorg (blk a, blk b)
  | _ -> failwith ("out: " ^ s)

let st = ref init

let rec fair (s : state) (fuel : int) (k : int) : string =
  if converged s then Printf.sprintf "conv %d" k
  else if fuel = 0 then Printf.sprintf "stuck %d" k
  else match sched s with
    | None -> Printf.sprintf "stuck %d" k
    | Some e -> (match step s e with
        | None -> Printf.sprintf "stuck %d" k
        | Some s' -> fair s' (fuel - 1) (k + 1))

let () = read_lines (fun line ->
  (match words line with
   | ["new"] -> st := init; print_string "ok"
   | "ev" :: ws ->
       (match step !st (parse_event ws) with
        | Some s' -> st := s'; print_string "ok"
        | None -> print_string "rej")
   | ["q"] ->
       let s = !st in
       Printf.printf "rv=%s obox=%d canc=%d loc=%s src=%s"
         (match s.rv with RIdle -> "idle" | RRun _ -> "run")
         (List.length s.obox) (if s.canc then 1 else 0) (ids s.loc) (ids s.src)
   | "pred" :: rest ->
       (match String.split_on_char '|' (String.concat " " rest) with
        | [f; l; t] ->
            let ok = history_ok (parse_list blk f) (parse_list parse_log l) (parse_list parse_out t) in
            print_string (if ok then "t" else "f")
        | _ -> failwith "pred")
   | ["fair"; fuel] -> print_string (fair !st (int_of_string fuel) 0)
   | _ -> failwith ("command: " ^ line));
  print_newline ())
