(* C07 oracle: answers, from the extracted Coq model, what the database value of a block's
   transactions/receipts must be, what every indexed read of such a value returns, and what the key
   codecs produce. One request per line. *)
let hexdigits = "0123456789abcdef"
let hex_of_bytes (l : n list) : string =
  if l = [] then "-" else begin
    let buf = Buffer.create 4096 in
    List.iter (fun b -> let i = int_of_n b in
      Buffer.add_char buf hexdigits.[(i lsr 4) land 15]; Buffer.add_char buf hexdigits.[i land 15]) l;
    Buffer.contents buf end
let byte_tab : n array = Array.init 256 n_of_int
let bytes_of_hex (s : string) : n list =
  if s = "-" || s = "e" then [] else begin
    let acc = ref [] in
    for i = String.length s / 2 - 1 downto 0 do
      acc := byte_tab.(16 * hexval s.[2*i] + hexval s.[2*i+1]) :: !acc
    done; !acc end
let items (s : string) : n list list =
  if s = "-" then [] else List.map bytes_of_hex (String.split_on_char ',' s)
let show_items (l : n list list) : string =
  if l = [] then "-" else String.concat "," (List.rev (List.rev_map (fun b -> if b = [] then "e" else hex_of_bytes b) l))
let show_res (r : n list res) : string = match r with
  | Ok b -> "ok:" ^ (if b = [] then "e" else hex_of_bytes b) | NotFound -> "notfound" | Err -> "err"
let show_all (r : n list list res) : string = match r with
  | Ok l -> "ok:" ^ show_items l | NotFound -> "notfound" | Err -> "err"
let show_ns (l : n list) : string = if l = [] then "-" else String.concat "," (List.map (fun x -> string_of_int (int_of_n x)) l)
let b2s b = if b then "t" else "f"

let () =
  read_lines (fun line ->
    (match words line with
     | ["blob"; t; r] -> print_endline (hex_of_bytes (model_blob (items t) (items r)))
     | [("block" | "blocklite") as cmd; raw; us] ->
         let raw = bytes_of_hex raw in
         let us = if us = "-" then [] else List.map n_of_hex (String.split_on_char ',' us) in
         (match model_hdr raw with
          | Some ((t, r), l) -> print_endline ("hdr " ^ show_ns t ^ " " ^ show_ns r ^ " " ^ string_of_int (int_of_n l))
          | None -> print_endline "hdr err");
         print_endline ("tx " ^ String.concat " " (List.map (fun u -> show_res (model_get_tx raw u)) us));
         print_endline ("rc " ^ String.concat " " (List.map (fun u -> show_res (model_get_rc raw u)) us));
         if cmd = "block" then begin
           print_endline ("alltx " ^ show_all (model_all_txs raw));
           print_endline ("allrc " ^ show_all (model_all_rcs raw)) end
     | ["key"; "be64"; x] -> print_endline (hex_of_bytes (be64 (n_of_hex x)))
     | ["key"; "cbor"; x] -> print_endline (hex_of_bytes (cbor_uint (n_of_hex x)))
     | ["key"; "felt"; x] -> print_endline (hex_of_bytes (felt_bytes (n_of_hex x)))
     | ["key"; "bni"; x; y] -> print_endline (hex_of_bytes (bni_key (n_of_hex x) (n_of_hex y)))
     | ["key"; "btx"; b; x] -> print_endline (hex_of_bytes (block_txs_key (n_of_hex b) (n_of_hex x)))
     | ["key"; "num"; b; x] -> print_endline (hex_of_bytes (num_key (n_of_hex b) (n_of_hex x)))
     | ["key"; "raw"; b; x] -> print_endline (hex_of_bytes (bucket_key (n_of_hex b) [bytes_of_hex x]))
     | ["dec"; "be64"; h] -> print_endline (match be64_dec (bytes_of_hex h) with Some x -> hex_of_n x | None -> "none")
     | ["dec"; "felt"; h] -> print_endline (match felt_dec (bytes_of_hex h) with Some x -> hex_of_n x | None -> "none")
     | ["dec"; "bni"; h] -> print_endline (match bni_dec (bytes_of_hex h) with Some (x, y) -> hex_of_n x ^ " " ^ hex_of_n y | None -> "none")
     | ["lex"; a; b] -> print_endline (b2s (lex_lt (bytes_of_hex a) (bytes_of_hex b)))
     | ["pre"; a; b] -> print_endline (b2s (has_prefix (bytes_of_hex a) (bytes_of_hex b)))
     | _ -> print_endline ("bad-request " ^ line));
    flush stdout)
