(* C07 oracle: answers, from the extracted Coq model, what the database value of a block's
   transactions/receipts must be, what every indexed read of such a value returns, and what the key
   codecs produce. One request per line. *)
let hexdigits = "0123456789abcdef"
let hex_of_bytes (l : n list) : string =
  if l = [] then "-" else begin
    let buf = Buffer.create 4096 in
    List.iter (fun b -> let i = int_of_n b in
      Buffer.add_char buf hexdigits.[(i lsr 4) land 15]; Buffer.add_char buf hexdigits.[i land 15]) l;
    Buffer.contents buf end
let byte_tab : n array = Array.init 256 n_of_int
let bytes_of_hex (s : string) : n list =
  if s = "-" || s = "e" then [] else begin
    let acc = ref [] in
    for i = String.length s / 2 - 1 downto 0 do
      acc := byte_tab.(16 * hexval s.[2*i] + hexval s.[2*i+1]) :: !acc
    done; !acc end
let items (s : string) : n list list =
  if s = "-" then [] else List.map bytes_of_hex (String.split_on_char ',' s)
let show_items (l : n list list) : string =
  if l = [] then "-" else String.concat "," (List.rev (List.rev_map (fun b -> if b = [] then "e" else hex_of_bytes b) l))
let show_res (r : n list res) : string = match r with
  | Ok b -> "ok:" ^ (if b = [] then "e" else hex_of_bytes b) | NotFound -> "notfound" | Err -> "err"
let show_all (r : n list list res) : string = match r with
  | Ok l -> "ok:" ^ show_items l | NotFound -> "notfound" | Err -> "err"
let show_ns (l : n list) : string = if l = [] then "-" else String.concat "," (List.map (fun x -> string_of_int (int_of_n x)) l)
let b2s b = if b then "t" else "f"


(* ---------- CBOR tie: shapes and values in the text form of harness/cmd/c07/cbor.go ---------- *)
let string_of_nbytes (l : n list) : string = String.concat "" (List.map (fun b -> String.make 1 (Char.chr (int_of_n b))) l)
let nbytes_of_string (s : string) : n list = List.init (String.length s) (fun i -> byte_tab.(Char.code s.[i]))
exception Parse of string
let is_hex c = (c >= '0' && c <= '9') || (c >= 'a' && c <= 'f')
let is_key c = (c >= '0' && c <= '9') || (c >= 'a' && c <= 'z') || (c >= 'A' && c <= 'Z') || c = '_' || c = '-'
let scan_while (s : string) (i : int ref) (p : char -> bool) : string =
  let j = ref !i in
  while !j < String.length s && p s.[!j] do incr j done;
  let r = String.sub s !i (!j - !i) in i := !j; r
let expect s i c = if !i < String.length s && s.[!i] = c then incr i else raise (Parse (Printf.sprintf "expected %c at %d" c !i))
let peek s i = if !i < String.length s then s.[!i] else '\000'

let rec parse_ty (s : string) (i : int ref) : ty =
  let c = peek s i in incr i;
  match c with
  | 'u' -> TUint (n_of_int (int_of_string (scan_while s i (fun c -> c >= '0' && c <= '9'))))
  | 'a' -> TByteArr (n_of_int (int_of_string (scan_while s i (fun c -> c >= '0' && c <= '9'))))
  | 'b' -> TBool | 's' -> TText | 'o' -> TBin | 'y' -> TByteSlice | 'f' -> TFelt
  | 'p' -> expect s i '('; let t = parse_ty s i in expect s i ')'; TPtr t
  | 'l' -> expect s i '('; let t = parse_ty s i in expect s i ')'; TSlice t
  | 'm' -> expect s i '('; let k = parse_ty s i in expect s i ','; let v = parse_ty s i in expect s i ')'; TMap (k, v)
  | 'S' ->
      expect s i '(';
      let fs = ref [] in
      while peek s i <> ')' do
        if !fs <> [] then expect s i ';';
        let key =
          if peek s i = '#' then begin incr i;
            let neg = peek s i = '-' in if neg then incr i;
            let d = int_of_string (scan_while s i (fun c -> c >= '0' && c <= '9')) in
            FInt (z_of_int (if neg then - d else d)) end
          else FText (nbytes_of_string (scan_while s i is_key)) in
        let omit = peek s i = '?' in if omit then incr i;
        expect s i ':';
        let t = parse_ty s i in
        fs := ((key, omit), t) :: !fs
      done;
      expect s i ')'; TStruct (List.rev !fs)
  | 'I' ->
      expect s i '(';
      let alts = ref [] in
      while peek s i <> ')' do
        if !alts <> [] then expect s i ';';
        let tag = n_of_hex (scan_while s i is_hex) in
        expect s i ':';
        let t = parse_ty s i in
        alts := (tag, t) :: !alts
      done;
      expect s i ')'; TIface (List.rev !alts)
  | _ -> raise (Parse (Printf.sprintf "bad shape at %d" (!i - 1)))

let rec show_ty (b : Buffer.t) (t : ty) : unit =
  match t with
  | TUint n -> Buffer.add_string b ("u" ^ string_of_int (int_of_n n))
  | TByteArr n -> Buffer.add_string b ("a" ^ string_of_int (int_of_n n))
  | TBool -> Buffer.add_char b 'b' | TText -> Buffer.add_char b 's' | TBin -> Buffer.add_char b 'o'
  | TByteSlice -> Buffer.add_char b 'y' | TFelt -> Buffer.add_char b 'f'
  | TPtr t -> Buffer.add_string b "p("; show_ty b t; Buffer.add_char b ')'
  | TSlice t -> Buffer.add_string b "l("; show_ty b t; Buffer.add_char b ')'
  | TMap (k, v) -> Buffer.add_string b "m("; show_ty b k; Buffer.add_char b ','; show_ty b v; Buffer.add_char b ')'
  | TStruct fs ->
      Buffer.add_string b "S(";
      List.iteri (fun j ((k, omit), t) ->
        if j > 0 then Buffer.add_char b ';';
        (match k with
         | FText s -> Buffer.add_string b (string_of_nbytes s)
         | FInt z -> Buffer.add_char b '#'; Buffer.add_string b (string_of_int (int_of_z z)));
        if omit then Buffer.add_char b '?';
        Buffer.add_char b ':'; show_ty b t) fs;
      Buffer.add_char b ')'
  | TIface alts ->
      Buffer.add_string b "I(";
      List.iteri (fun j (tag, t) ->
        if j > 0 then Buffer.add_char b ';';
        Buffer.add_string b (hex_of_n tag); Buffer.add_char b ':'; show_ty b t) alts;
      Buffer.add_char b ')'

let hexbytes (s : string) (i : int ref) : n list = let h = scan_while s i is_hex in if h = "" then [] else bytes_of_hex h

let rec parse_val (s : string) (i : int ref) : val0 =
  let c = peek s i in
  match c with
  | 'T' -> incr i; VBool true
  | 'F' -> incr i; VBool false
  | '~' -> incr i; VNil
  | '"' -> incr i; VText (hexbytes s i)
  | 'x' -> incr i; VBin (hexbytes s i)
  | '<' -> incr i;
      let a = n_of_hex (scan_while s i is_hex) in expect s i '.';
      let b = n_of_hex (scan_while s i is_hex) in expect s i '.';
      let c = n_of_hex (scan_while s i is_hex) in expect s i '.';
      let d = n_of_hex (scan_while s i is_hex) in expect s i '>'; VFelt (a, b, c, d)
  | '[' -> incr i;
      let l = ref [] in
      while peek s i <> ']' do
        if !l <> [] then expect s i ',';
        l := parse_val s i :: !l
      done; incr i; VList (List.rev !l)
  | '(' -> incr i;
      let l = ref [] in
      while peek s i <> ')' do
        if !l <> [] then expect s i ',';
        l := parse_val s i :: !l
      done; incr i; VStruct (List.rev !l)
  | '{' -> incr i;
      let l = ref [] in
      while peek s i <> '}' do
        if !l <> [] then expect s i ',';
        let k = parse_val s i in expect s i '=';
        let v = parse_val s i in
        l := (k, v) :: !l
      done; incr i; VMap (List.rev !l)
  | '@' -> incr i;
      let tag = n_of_hex (scan_while s i is_hex) in expect s i ':';
      VIface (tag, parse_val s i)
  | c when is_hex c -> VUint (n_of_hex (scan_while s i is_hex))
  | _ -> raise (Parse (Printf.sprintf "bad value at %d" !i))

let rec show_val (b : Buffer.t) (v : val0) : unit =
  let list_sep l f = List.iteri (fun j x -> if j > 0 then Buffer.add_char b ','; f x) l in
  let hexs l = if l <> [] then Buffer.add_string b (hex_of_bytes l) in
  match v with
  | VUint n -> Buffer.add_string b (hex_of_n n)
  | VBool t -> Buffer.add_char b (if t then 'T' else 'F')
  | VText l -> Buffer.add_char b '"'; hexs l
  | VBin l -> Buffer.add_char b 'x'; hexs l
  | VFelt (a, c, d, e) -> Buffer.add_string b ("<" ^ hex_of_n a ^ "." ^ hex_of_n c ^ "." ^ hex_of_n d ^ "." ^ hex_of_n e ^ ">")
  | VNil -> Buffer.add_char b '~'
  | VList l -> Buffer.add_char b '['; list_sep l (show_val b); Buffer.add_char b ']'
  | VStruct l -> Buffer.add_char b '('; list_sep l (show_val b); Buffer.add_char b ')'
  | VMap l -> Buffer.add_char b '{'; list_sep l (fun (k, x) -> show_val b k; Buffer.add_char b '='; show_val b x); Buffer.add_char b '}'
  | VIface (tag, x) -> Buffer.add_char b '@'; Buffer.add_string b (hex_of_n tag); Buffer.add_char b ':'; show_val b x

let ty_memo : (string, ty) Hashtbl.t = Hashtbl.create 64
let ty_of_string s =
  match Hashtbl.find_opt ty_memo s with
  | Some t -> t
  | None -> let i = ref 0 in let t = parse_ty s i in if !i <> String.length s then raise (Parse "trailing shape text"); Hashtbl.add ty_memo s t; t
let val_of_string s = let i = ref 0 in let v = parse_val s i in if !i <> String.length s then raise (Parse "trailing value text"); v
let string_of_ty t = let b = Buffer.create 256 in show_ty b t; Buffer.contents b
let string_of_val v = let b = Buffer.create 1024 in show_val b v; Buffer.contents b

let cbor_cmd (ws : string list) : string =
  try match ws with
  | ["cshape"; name] ->
      (match shape_by_name (nbytes_of_string name) with Some t -> string_of_ty t | None -> "unknown")
  | ["cenc"; sh; v] ->
      let t = ty_of_string sh in
      let v = val_of_string v in
      if not (shape_ok t) then "badshape x x"
      else if not (has_type t v) then "illtyped x x"
      else begin
        let bs = marshal t v in
        let rt = (match unmarshal t bs with Some w -> w = v | None -> false) in
        "ok " ^ hex_of_bytes bs ^ " " ^ b2s rt end
  | ["cdec"; sh; h] ->
      let t = ty_of_string sh in
      (match unmarshal t (bytes_of_hex h) with Some v -> "some " ^ string_of_val v | None -> "none")
  | ["cgen"; h] ->
      let d = bytes_of_hex h in
      (match decode d with
       | Some (x, rest) ->
           let e = encode x in
           "some " ^ hex_of_bytes e ^ " " ^ hex_of_bytes rest ^ " " ^ (if wf_item x && e @ rest = d then "exact" else "inexact")
       | None -> "none")
  | _ -> "bad-request"
  with Parse m -> "parse-error " ^ m | Failure m -> "parse-error " ^ m | Invalid_argument m -> "parse-error " ^ m

let () =
  read_lines (fun line ->
    (match words line with
     | ["blob"; t; r] -> print_endline (hex_of_bytes (model_blob (items t) (items r)))
     | [("block" | "blocklite") as cmd; raw; us] ->
         let raw = bytes_of_hex raw in
         let us = if us = "-" then [] else List.map n_of_hex (String.split_on_char ',' us) in
         (match model_hdr raw with
          | Some ((t, r), l) -> print_endline ("hdr " ^ show_ns t ^ " " ^ show_ns r ^ " " ^ string_of_int (int_of_n l))
          | None -> print_endline "hdr err");
         print_endline ("tx " ^ String.concat " " (List.map (fun u -> show_res (model_get_tx raw u)) us));
         print_endline ("rc " ^ String.concat " " (List.map (fun u -> show_res (model_get_rc raw u)) us));
         if cmd = "block" then begin
           print_endline ("alltx " ^ show_all (model_all_txs raw));
           print_endline ("allrc " ^ show_all (model_all_rcs raw)) end
     | ["key"; "be64"; x] -> print_endline (hex_of_bytes (be64 (n_of_hex x)))
     | ["key"; "cbor"; x] -> print_endline (hex_of_bytes (cbor_uint (n_of_hex x)))
     | ["key"; "felt"; x] -> print_endline (hex_of_bytes (felt_bytes (n_of_hex x)))
     | ["key"; "bni"; x; y] -> print_endline (hex_of_bytes (bni_key (n_of_hex x) (n_of_hex y)))
     | ["key"; "btx"; b; x] -> print_endline (hex_of_bytes (block_txs_key (n_of_hex b) (n_of_hex x)))
     | ["key"; "num"; b; x] -> print_endline (hex_of_bytes (num_key (n_of_hex b) (n_of_hex x)))
     | ["key"; "raw"; b; x] -> print_endline (hex_of_bytes (bucket_key (n_of_hex b) [bytes_of_hex x]))
     | ["dec"; "be64"; h] -> print_endline (match be64_dec (bytes_of_hex h) with Some x -> hex_of_n x | None -> "none")
     | ["dec"; "felt"; h] -> print_endline (match felt_dec (bytes_of_hex h) with Some x -> hex_of_n x | None -> "none")
     | ["dec"; "bni"; h] -> print_endline (match bni_dec (bytes_of_hex h) with Some (x, y) -> hex_of_n x ^ " " ^ hex_of_n y | None -> "none")
     | ["lex"; a; b] -> print_endline (b2s (lex_lt (bytes_of_hex a) (bytes_of_hex b)))
     | ["pre"; a; b] -> print_endline (b2s (has_prefix (bytes_of_hex a) (bytes_of_hex b)))
     | ("cshape" | "cenc" | "cdec" | "cgen") :: _ as ws -> print_endline (cbor_cmd ws)
     | _ -> print_endline ("bad-request " ^ line));
    flush stdout)
