(* C08 oracle. Keeps the abstract world and the handler-level db in lock step with the ops the harness
   performed on the real nodes; answers every request with the property's expected answer, the handler
   model's answer for v0.8 / v0.9 / v0.10 and the deviation class of the request. *)
let hx s = n_of_hex s
let items s = if s = "-" then [] else String.split_on_char ',' s
let pair sep f g s = match String.split_on_char sep s with
  | [a; b] -> (f a, g b) | _ -> failwith ("pair: " ^ s)

let parse_tx s = match String.split_on_char '/' s with
  | [h; r; e; p; rp] -> { t_hash = hx h; t_reverted = (r = "1"); t_events = n_of_int (int_of_string e);
                          t_pay = hx p; t_rpay = hx rp }
  | _ -> failwith ("tx: " ^ s)

(* sto: contracts separated by '|', each  addr:k=v,k=v *)
let parse_sto s =
  if s = "-" then [] else
  List.map (fun c -> pair ':' hx (fun kvs -> List.map (pair '=' hx hx) (items kvs)) c) (String.split_on_char '|' s)

let triple s = match String.split_on_char '>' s with
  | [a; b; c] -> (hx a, (hx b, hx c)) | _ -> failwith ("triple: " ^ s)

(* decl0: hash>definition ; decl1: hash>compiled>definition *)
let parse_diff dep rep non sto decl0 decl1 =
  { d_deploy = List.map (pair '>' hx hx) (items dep); d_replace = List.map (pair '>' hx hx) (items rep);
    d_nonces = List.map (pair '>' hx hx) (items non); d_storage = parse_sto sto;
    d_declare0 = List.map (pair '>' hx hx) (items decl0); d_declare1 = List.map triple (items decl1) }

let parse_id s =
  if s = "latest" then Latest else if s = "l1" then L1Accepted
  else match String.split_on_char ':' s with
    | ["n"; x] -> Number (hx x) | ["h"; x] -> Hash (hx x) | _ -> failwith ("id: " ^ s)

let parse_req (ws : string list) : req = match ws with
  | ["blockNumber"] -> RBlockNumber | ["blockHashAndNumber"] -> RBlockHashAndNumber
  | ["blockWithTxHashes"; id] -> RBlockWithTxHashes (parse_id id) | ["blockWithTxs"; id] -> RBlockWithTxs (parse_id id)
  | ["blockWithReceipts"; id] -> RBlockWithReceipts (parse_id id) | ["txCount"; id] -> RTxCount (parse_id id)
  | ["txByHash"; h] -> RTxByHash (hx h) | ["receipt"; h] -> RReceipt (hx h) | ["txStatus"; h] -> RTxStatus (hx h)
  | ["txByIdx"; id; i] -> RTxByIdx (parse_id id, z_of_int (int_of_string i))
  | ["stateUpdate"; id] -> RStateUpdate (parse_id id)
  | ["storageAt"; id; a; k] -> RStorageAt (parse_id id, hx a, hx k)
  | ["storageAtLU"; id; a; k] -> RStorageAtLU (parse_id id, hx a, hx k)
  | ["nonce"; id; a] -> RNonce (parse_id id, hx a) | ["classHashAt"; id; a] -> RClassHashAt (parse_id id, hx a)
  | ["classAt"; id; a] -> RClassAt (parse_id id, hx a) | ["class"; id; c] -> RClass (parse_id id, hx c)
  | _ -> failwith ("req: " ^ String.concat " " ws)

let hn = hex_of_n
let dn x = string_of_int (int_of_n x)
let st = function AcceptedL1 -> "L1" | AcceptedL2 -> "L2"
let ex r = if r then "R" else "S"
let join_or l = if l = [] then "-" else String.concat "," l
(* numeric order on hex strings without leading zeros: by length, then lexicographic *)
let cmp_hex (a, _) (b, _) =
  if String.length a <> String.length b then compare (String.length a) (String.length b) else compare a b
let sorted (l : (string * string) list) : string list = List.map snd (List.sort cmp_hex l)

let show_diff (d : diff) : string =
  let pairs l = sorted (List.map (fun (a, c) -> (hn a, hn a ^ ">" ^ hn c)) l) in
  let sto = sorted (List.map (fun (a, kvs) ->
    (hn a, hn a ^ "[" ^ String.concat "," (sorted (List.map (fun (k, v) -> (hn k, hn k ^ "=" ^ hn v)) kvs)) ^ "]")) d.d_storage) in
  let decl = sorted (List.map (fun (c, _) -> (hn c, hn c)) d.d_declare0) in
  let decl1 = sorted (List.map (fun (c, (cc, _)) -> (hn c, hn c ^ ">" ^ hn cc)) d.d_declare1) in
  Printf.sprintf "dep=%s;rep=%s;non=%s;sto=%s;decl=%s;decl1=%s" (join_or (pairs d.d_deploy)) (join_or (pairs d.d_replace))
    (join_or (pairs d.d_nonces)) (join_or sto) (join_or decl) (join_or decl1)

let show_err = function
  | BlockNotFound -> "BLOCK_NOT_FOUND" | TxnHashNotFound -> "TXN_HASH_NOT_FOUND" | ContractNotFound -> "CONTRACT_NOT_FOUND"
  | InvalidTxnIndex -> "INVALID_TXN_INDEX" | ClassHashNotFound -> "CLASS_HASH_NOT_FOUND" | NoBlocks -> "NO_BLOCKS"
  | InvalidParams -> "INVALID_PARAMS" | Internal -> "INTERNAL"

let show_hdr (h : hdr) : string =
  Printf.sprintf "%s:%s:%s:%s:%s" (dn h.hd_number) (hn h.hd_hash) (hn h.hd_parent) (st h.hd_status) (hn h.hd_pay)

let show (a : answer) : string = match a with
  | AErr e -> "err:" ^ show_err e
  | ANum n -> "num:" ^ dn n
  | AHashNum (h, n) -> "hn:" ^ hn h ^ ":" ^ dn n
  | ABlock (hd, txs) -> Printf.sprintf "blk:%s:%s" (show_hdr hd) (join_or (List.map hn txs))
  | ABlockT (hd, txs) ->
      Printf.sprintf "blkt:%s:%s" (show_hdr hd) (join_or (List.map (fun (th, p) -> hn th ^ "/" ^ hn p) txs))
  | ABlockR (hd, rcs) ->
      Printf.sprintf "blkr:%s:%s" (show_hdr hd)
        (join_or (List.map (fun r -> Printf.sprintf "%s/%s/%s/%s/%s/%s" (hn r.rv_hash) (st r.rv_status) (ex r.rv_reverted)
                                       (dn r.rv_events) (hn r.rv_tpay) (hn r.rv_rpay)) rcs))
  | ATx (h, p) -> "tx:" ^ hn h ^ ":" ^ hn p
  | AReceipt (h, bn, bh, s, r, e, rp) ->
      Printf.sprintf "rc:%s:%s:%s:%s:%s:%s:%s" (hn h) (dn bn) (hn bh) (st s) (ex r) (dn e) (hn rp)
  | ATxStatus (s, r) -> "st:" ^ st s ^ ":" ^ ex r
  | AStateUpdate (bh, d) -> "su:" ^ hn bh ^ ":" ^ show_diff d
  | AFelt v -> "felt:" ^ hn v
  | AFeltAt (v, n) -> "feltat:" ^ hn v ^ ":" ^ dn n
  | AClass c -> "class:" ^ hn c

let show_dev = function DevNone -> "none" | DevTxIdxAbsentNumber -> "txidx-absent-block-number" | DevStateZeroHash -> "state-by-zero-block-hash"
  | DevOrphanClass -> "orphan-class"

let w = ref w_init
let d = ref db_init
let apply (o : op) =
  let ok = op_ok !w o in
  w := w_step !w o; d := db_step !d o;
  print_endline ("ok " ^ (if ok then "1" else "0"))

let () =
  read_lines (fun line ->
    (match words line with
     | ["reset"] -> w := w_init; d := db_init; print_endline "ok 1"
     | ["store"; h; hp; txs; dep; rep; non; sto; decl0; decl1; extra] ->
         apply (OStore (hx h, hx hp, List.map parse_tx (items txs), parse_diff dep rep non sto decl0 decl1,
                        List.map (pair '>' hx hx) (items extra)))
     | ["revert"] -> apply ORevert
     | ["l1"; n] -> apply (OSetL1 (hx n))
     | "q" :: be :: rq ->
         let be = if be = "legacy" then Legacy else NewState in
         let r = parse_req rq in
         print_endline ("spec " ^ show (spec_answer !w r));
         print_endline ("exp8 " ^ show (expected V8 !w r));
         print_endline ("exp9 " ^ show (expected V9 !w r));
         print_endline ("m8 " ^ show (handle V8 be !d r));
         print_endline ("m9 " ^ show (handle V9 be !d r));
         print_endline ("m10 " ^ show (handle V10 be !d r));
         print_endline ("dev " ^ show_dev (deviates !w r))
     | _ -> failwith ("oracle: bad line: " ^ line));
    flush stdout)
