(* C09 oracle: a stateful session around the extracted event-index model.
   One command per input line, one reply line per command.

     reset <W>                      new session, window size W, empty chain
     loc a <addr> <i1> <i2> ...     real bloom bit locations of an address key
     loc k <pos> <key> <i1> ...     real bloom bit locations of (key, position)
     store <block>                  block = txs joined by '|', tx = events joined by ',' ('e' = no events),
                                    event = from/k1.k2...  ; '-' = block without transactions
     revert | restart g | restart u | forget <ws> ...
     query <addrs> <keys> <from> <to> <chunk> <limit> <tokblock> <tokcount>
                                    addrs = a.b.c or '-'; keys = positions joined by '|', each k.k or 'e'; '-' = none
     queryp <addrs> <keys> <from> <to> <chunk> <limit> <tokblock> <tokcount> <block> ...
                                    same with pre-confirmed blocks (oldest first) above the head
     rpcq <addrs> <keys> <from id> <to id> <chunk> <limit> <tokblock> <tokcount> <block> ...
                                    starknet_getEvents: block ids resolved as rpc/v*/events.go does; reply page | err | notfound
     specp <addrs> <keys> <from> <to> <block> ...      filter_spec_pre (the spec of C09_paging_concat_preconfirmed); must
                                    equal filter_spec over chain ++ pre-confirmed blocks (else the reply is "spec !...")
     pgseq <from> <to> <chunk> <limit> <matches> <npre> <size:tokblock:tokcount> ...
                                    the predicates of C09_paging_terminates on a page sequence of the IMPLEMENTATION:
                                    ok | bad chunk i | bad empty i | bad progress i | bad count <blocks>
     pgseqr <from id> <to id> <chunk> <limit> <matches> <npre> <size:tokblock:tokcount> ...
                                    same with block ids of starknet_getEvents (skip when an id does not resolve)
     spec <addrs> <keys> <from> <to>
     light <n>                      n blocks without transactions (err if any store fails)
     push | pop | forgetall         save / restore the session state; drop the whole cache (counterfactuals)
     snap                           the running-filter snapshot on the model's disk: none | <from> <next>
     hyp                            hypotheses of the theorem on the history so far
     state                          debugging

   Bloom membership: with a table of real bit locations, member ks k = every bit of k is set by some key
   of ks (the real bloom semantics); keys without locations fall back to exact membership. *)

let w_size = ref (n_of_int 8192)
let st : state ref = ref init_state
let snap_bad = ref false      (* an ungraceful restart met a snapshot that is used but not good *)
let stale_pers = ref false    (* an ungraceful restart met a stale persisted window on the rebuild branch *)

let saved : (state * bool * bool) list ref = ref []
let loc_tbl : (string, int list) Hashtbl.t = Hashtbl.create 64
let key_id (k : bkey) : string = match k with
  | KAddr a -> "a" ^ hex_of_n a
  | KKey (p, x) -> "k" ^ hex_of_n p ^ ":" ^ hex_of_n x

let member (ks : bkey list) (k : bkey) : bool =
  match Hashtbl.find_opt loc_tbl (key_id k) with
  | None -> member_exact ks k
  | Some locs ->
      let sets = List.filter_map (fun k' -> Hashtbl.find_opt loc_tbl (key_id k')) ks in
      if List.length sets <> List.length ks then member_exact ks k
      else List.for_all (fun l -> List.exists (fun ls -> List.mem l ls) sets) locs

let num s = n_of_int (int_of_string s)

let parse_event (s : string) : event =
  match String.split_on_char '/' s with
  | [f] -> { ev_from = num f; ev_keys = [] }
  | [f; ks] -> { ev_from = num f; ev_keys = List.map num (split_on '.' ks) }
  | _ -> failwith "event"
let parse_tx (s : string) : event list = if s = "e" then [] else List.map parse_event (split_on ',' s)
let parse_block (s : string) : event list list = if s = "-" then [] else List.map parse_tx (split_on '|' s)

let parse_addrs s = if s = "-" then [] else List.map num (split_on '.' s)
let parse_keys s =
  if s = "-" then [] else
  List.map (fun p -> if p = "e" then [] else List.map num (split_on '.' p)) (String.split_on_char '|' s)
let parse_filter a k : efilter = { f_addrs = parse_addrs a; f_keys = parse_keys k }

(* block ids of starknet_getEvents: - (absent) | latest | pre | n:<number> | r:<number> (hash or l1_accepted
   resolved by the harness) | r:x (hash / l1 head unknown) *)
let parse_bid (s : string) : bid =
  match s with
  | "-" -> BAbsent | "latest" -> BLatest | "pre" -> BPreConfirmed
  | _ ->
    (match String.split_on_char ':' s with
     | ["n"; x] -> BNumber (num x)
     | ["r"; "x"] -> BResolved None
     | ["r"; x] -> BResolved (Some (num x))
     | _ -> failwith ("bid " ^ s))

let show_evs (l : fev list) : string =
  if l = [] then "-" else
  String.concat "," (List.map (fun e ->
    Printf.sprintf "%d.%d.%d" (int_of_n e.fe_block) (int_of_n e.fe_tx) (int_of_n e.fe_idx)) l)

let do_step (o : op) : out =
  (match o with
   | Restart false ->
       (match !st.running with
        | Ready (_, _) ->
            let k = int_of_n (disk_bad_kind !w_size !st) in
            if k = 1 then snap_bad := true;
            if k = 2 then stale_pers := true
        | _ -> ())
   | _ -> ());
  let (s', r) = step !w_size member !st o in
  st := s'; r

let show_out = function
  | OOk -> "ok" | OErr -> "err"
  | OPage (evs, (b, c)) -> Printf.sprintf "page %s %d %d" (show_evs evs) (int_of_n b) (int_of_n c)

let b2s b = if b then "1" else "0"

(* the paging predicates of Model.v (page_chunk_ok / page_empty_ok / page_progress_ok = the conjuncts of pages_ok,
   page_count_ok) on a page sequence observed on the implementation; the first failing conjunct is named *)
let parse_page (w : string) : n * (n * n) =
  match String.split_on_char ':' w with
  | [sz; tb; tc] -> (num sz, (num tb, num tc))
  | _ -> failwith ("page " ^ w)

let check_pages (from : n) (to_ : n) (chunk : n) (limit : n) (matches : n) (npre : int) (pages : (n * (n * n)) list) : string =
  let pre = List.init npre (fun _ -> []) in
  let ch = !st.chain in
  let prev0 = (pre_start ch pre from, N0) in
  let rec go i prev = function
    | [] -> None
    | p :: r ->
        if not (page_chunk_ok chunk p) then Some ("chunk", i)
        else if not (page_empty_ok limit p) then Some ("empty", i)
        else if not (page_progress_ok prev p) then Some ("progress", i)
        else go (i + 1) (snd p) r in
  match go 0 prev0 pages with
  | Some (w, i) -> Printf.sprintf "bad %s %d" w i
  | None ->
      let blocks = range_blocks ch pre from to_ in
      if not (pages_ok chunk limit prev0 pages) then "bad pages_ok 0"
      else if not (page_count_ok blocks matches (n_of_int (List.length pages))) then
        Printf.sprintf "bad count %d" (int_of_n blocks)
      else "ok"

let () =
  read_lines (fun line ->
    let reply =
      match words line with
      | ["reset"; w] ->
          w_size := num w; st := init_state; snap_bad := false; stale_pers := false;
          Hashtbl.reset loc_tbl; "ok"
      | "loc" :: "a" :: a :: locs ->
          Hashtbl.replace loc_tbl (key_id (KAddr (num a))) (List.map int_of_string locs); "ok"
      | "loc" :: "k" :: p :: k :: locs ->
          Hashtbl.replace loc_tbl (key_id (KKey (num p, num k))) (List.map int_of_string locs); "ok"
      | ["store"; b] -> show_out (do_step (Store (parse_block b)))
      | ["light"; n] ->
          let r = ref "ok" in
          for _ = 1 to int_of_string n do
            if show_out (do_step (Store [])) <> "ok" then r := "err"
          done; !r
      | ["push"] -> saved := (!st, !snap_bad, !stale_pers) :: !saved; "ok"
      | ["pop"] ->
          (match !saved with
           | (s, a, b) :: r -> st := s; snap_bad := a; stale_pers := b; saved := r; "ok"
           | [] -> failwith "pop")
      | ["forgetall"] -> st := { !st with cache = [] }; "ok"
      | ["revert"] -> show_out (do_step Revert)
      | ["restart"; g] -> show_out (do_step (Restart (g = "g")))
      | "forget" :: ws -> show_out (do_step (Forget (List.map num ws)))
      | ["query"; a; k; f; t; chunk; limit; tb; tc] ->
          show_out (do_step (Query (parse_filter a k, num f, num t, num chunk, num limit, (num tb, num tc))))
      | "queryp" :: a :: k :: f :: t :: chunk :: limit :: tb :: tc :: pre ->
          let (s', r) = do_query_pre !w_size member !st (parse_filter a k) (num f) (num t) (num chunk)
                          (num limit) (num tb, num tc) (List.map parse_block pre) in
          st := s'; show_out r
      | "rpcq" :: a :: k :: fb :: tb :: chunk :: limit :: tkb :: tkc :: pre ->
          let (s', r) = do_rpc_events !w_size member !st (parse_filter a k) (parse_bid fb) (parse_bid tb)
                          (num chunk) (num limit) (num tkb, num tkc) (List.map parse_block pre) in
          st := s';
          (match r with None -> "notfound" | Some o -> show_out o)
      | "specp" :: a :: k :: f :: t :: pre ->
          let pre = List.map parse_block pre in
          let flt = parse_filter a k in
          let sp = filter_spec_pre !st.chain flt (num f) (num t) pre in
          (* C09_spec_preconfirmed_is_spec_of_extended_chain (non-empty chain, from <> sentinel) *)
          if !st.chain <> [] && sp <> filter_spec (!st.chain @ pre) flt (num f) (num t) then "spec !" ^ show_evs sp
          else "spec " ^ show_evs sp
      | "pgseq" :: f :: t :: chunk :: limit :: matches :: npre :: pages ->
          check_pages (num f) (num t) (num chunk) (num limit) (num matches) (int_of_string npre)
            (List.map parse_page pages)
      | "pgseqr" :: fb :: tb :: chunk :: limit :: matches :: npre :: pages ->
          (match !st.chain with
           | [] -> "skip"
           | ch ->
             let latest = n_of_int (List.length ch - 1) in
             (match resolve_bid false latest N0 (parse_bid fb), resolve_bid true latest latest (parse_bid tb) with
              | Some f, Some t ->
                  check_pages f t (num chunk) (num limit) (num matches) (int_of_string npre) (List.map parse_page pages)
              | _, _ -> "skip"))
      | ["spec"; a; k; f; t] ->
          "spec " ^ show_evs (filter_spec !st.chain (parse_filter a k) (num f) (num t))
      | ["snap"] ->
          (match !st.snapshot with
           | None -> "none"
           | Some (w, nx) -> Printf.sprintf "%d %d" (int_of_n w.w_from) (int_of_n nx))
      | ["hyp"] ->
          Printf.sprintf "fresh=%s snapbad=%s stalepers=%s"
            (b2s (cache_fresh_b !st)) (b2s !snap_bad) (b2s !stale_pers)
      | ["state"] ->
          let keys m = String.concat "," (List.map (fun (k, _) -> string_of_int (int_of_n k)) m) in
          let r = match !st.running with
            | Uninit -> "uninit" | Failed -> "failed"
            | Ready (w, nx) -> Printf.sprintf "ready:%d:%d" (int_of_n w.w_from) (int_of_n nx) in
          let sn = match !st.snapshot with
            | None -> "none" | Some (w, nx) -> Printf.sprintf "%d:%d" (int_of_n w.w_from) (int_of_n nx) in
          Printf.sprintf "len=%d running=%s snapshot=%s persisted=[%s] cache=[%s]"
            (List.length !st.chain) r sn (keys !st.persisted) (keys !st.cache)
      | _ -> failwith ("c09 oracle: bad line: " ^ line)
    in
    print_endline reply; flush stdout)
