(* C10 oracle.
   prove <ped|pos> <height> k:v k:v ... | key key ...
       builds the trie by the C01 update model, then for every key prints (tab separated fields):
         key <hex> / get <term>|none
         s2 <keyterm> B <tag> <term> <tag> <term>   |  s2 <keyterm> E <bits> <tag> <term>
              the trie2 proof SET (ordered, keyed by node hash) of Prove(key); tag = H|V
         s1 <keyterm> B <term> <term> | s1 <keyterm> E <bits> <term>      (legacy proof set)
         v2 <result> / v1 <result>    the model verifying its own proof (term level)
       first lines: root <term>, canon t|f; last line: end
   verify <v2|v2s|v1|vw> <roothex> <keybits> <entry> <entry> ...
       entry = <keyhex>=B,<tag><hex>,<tag><hex>,<inner>   inner = H(left,right)
             | <keyhex>=E,<bits|->,<tag><hex>,<inner>      inner = H(child,path)
       concrete felts; the hash function is the finite table given by the inner values.
       reply: ok <hex> | err | fuel ; then end *)
let rec show_term (t : hterm) : string = match t with
  | HC z -> "(C " ^ hex_of_z z ^ ")"
  | HP (a, b) -> "(P " ^ show_term a ^ " " ^ show_term b ^ ")"
  | HS (a, b) -> "(S " ^ show_term a ^ " " ^ show_term b ^ ")"
  | HA (a, n) -> "(A " ^ show_term a ^ " " ^ string_of_int (int_of_nat n) ^ ")"
  | HB p -> "(B " ^ (if p = [] then "-" else String.concat "" (List.map (fun b -> if b then "1" else "0") p)) ^ ")"

let show_bits p = if p = [] then "-" else String.concat "" (List.map (fun b -> if b then "1" else "0") p)
let parse_bits s = if s = "-" then [] else List.init (String.length s) (fun i -> s.[i] = '1')

let kv s = match String.split_on_char ':' s with
  | [k; v] -> (z_of_hex k, z_of_hex v) | _ -> failwith "kv"

let show_res show r = match r with
  | Ok x -> "ok\t" ^ show x | Err -> "err" | Fuel -> "fuel"

let show_child c = match c with CH x -> "H\t" ^ show_term x | CV x -> "V\t" ^ show_term x

let split_bar (ws : string list) : string list * string list =
  let rec go acc = function
    | [] -> (List.rev acc, [])
    | "|" :: r -> (List.rev acc, r)
    | x :: r -> go (x :: acc) r in
  go [] ws

let show_rres r = match r with
  | ROk b -> "ok more=" ^ (if b then "true" else "false") | RErr -> "err" | RPanic -> "panic" | RFuel -> "fuel"

(* alterations of a (term-level) proof set, by position in the set; the harness applies the same
   ones to the implementation's set:
     drop:i | swap:i | retag:i:l|r|c | child:i:l|r|c:hex | pathflip:i:j | copy:i:j (node i also under key j) *)
let retag_c c = match c with CH x -> CV x | CV x -> CH x
let setval c v = match c with CH _ -> CH v | CV _ -> CV v
let apply_mut ps m =
  let len = List.length ps in
  let nth i = List.nth ps i in
  let upd i f = List.mapi (fun j (k, n) -> if j = i then (k, f n) else (k, n)) ps in
  match String.split_on_char ':' m with
  | ["drop"; i] -> let i = int_of_string i in List.filteri (fun j _ -> j <> i) ps
  | ["swap"; i] -> upd (int_of_string i) (fun n -> match n with QBin (l, r) -> QBin (r, l) | e -> e)
  | ["retag"; i; side] -> upd (int_of_string i) (fun n -> match n, side with
      | QBin (l, r), "l" -> QBin (retag_c l, r) | QBin (l, r), "r" -> QBin (l, retag_c r)
      | QEdge (p, c), _ -> QEdge (p, retag_c c) | e, _ -> e)
  | ["child"; i; side; hex] -> let v = HC (z_of_hex hex) in upd (int_of_string i) (fun n -> match n, side with
      | QBin (l, r), "l" -> QBin (setval l v, r) | QBin (l, r), "r" -> QBin (l, setval r v)
      | QEdge (p, c), _ -> QEdge (p, setval c v) | e, _ -> e)
  | ["pathflip"; i; j] -> let j = int_of_string j in upd (int_of_string i) (fun n -> match n with
      | QEdge (p, c) -> QEdge (List.mapi (fun x b -> if x = j then not b else b) p, c) | e -> e)
  | ["copy"; i; j] -> if int_of_string i >= len then ps else
      let (_, ni) = nth (int_of_string i) in upd (int_of_string j) (fun _ -> ni)
  | ["setedge"; i; bits; hex] -> upd (int_of_string i) (fun _ -> QEdge (parse_bits bits, CH (HC (z_of_hex hex))))
  | _ -> failwith ("mutation " ^ m)
let apply_muts ps muts = List.fold_left apply_mut ps muts

(* the same on the legacy (untagged) set *)
let apply_mut1 ps m =
  let len = List.length ps in
  let upd i f = List.mapi (fun j (k, n) -> if j = i then (k, f n) else (k, n)) ps in
  match String.split_on_char ':' m with
  | ["drop"; i] -> let i = int_of_string i in List.filteri (fun j _ -> j <> i) ps
  | ["swap"; i] -> upd (int_of_string i) (fun n -> match n with PBin (l, r) -> PBin (r, l) | e -> e)
  | ["retag"; _; _] -> ps
  | ["child"; i; side; hex] -> let v = HC (z_of_hex hex) in upd (int_of_string i) (fun n -> match n, side with
      | PBin (l, r), "l" -> PBin (v, r) | PBin (l, r), "r" -> PBin (l, v)
      | PEdge (p, c), _ -> PEdge (p, v) | e, _ -> e)
  | ["pathflip"; i; j] -> let j = int_of_string j in upd (int_of_string i) (fun n -> match n with
      | PEdge (p, c) -> PEdge (List.mapi (fun x b -> if x = j then not b else b) p, c) | e -> e)
  | ["copy"; i; j] -> if int_of_string i >= len then ps else
      let (_, ni) = List.nth ps (int_of_string i) in upd (int_of_string j) (fun _ -> ni)
  | ["setedge"; i; bits; hex] -> upd (int_of_string i) (fun _ -> PEdge (parse_bits bits, HC (z_of_hex hex)))
  | _ -> failwith ("mutation " ^ m)

let parse_child s = (* tag + hex *)
  let v = z_of_hex (String.sub s 1 (String.length s - 1)) in
  if s.[0] = 'V' then CV v else CH v

let () =
  read_lines (fun line ->
    (match words line with
    | "prove" :: hf :: h :: rest ->
        let pos = (hf = "pos") in
        let hn = nat_of_int (int_of_string h) in
        let (ops, keys) = split_bar rest in
        let t = h_run hn (List.map kv ops) in
        let hfun = if pos then (fun a b -> HS (a, b)) else (fun a b -> HP (a, b)) in
        let hb p = HB p and ha a n = HA (a, n) in
        print_endline ("root\t" ^ show_term (h_root pos t));
        print_endline ("canon\t" ^ (if h_canon hn t then "t" else "f"));
        List.iter (fun ks ->
          let k = bits_of_Z hn (z_of_hex ks) in
          print_endline ("key\t" ^ ks);
          print_endline ("get\t" ^ (match h_get t k with Some v -> show_term v | None -> "none"));
          List.iter (fun (hk, n) ->
            print_endline ("s2\t" ^ show_term hk ^ "\t" ^ (match n with
              | QBin (l, r) -> "B\t" ^ show_child l ^ "\t" ^ show_child r
              | QEdge (p, c) -> "E\t" ^ show_bits p ^ "\t" ^ show_child c)))
            (set_of2 heqb hfun hb ha (h_prove2 pos t k));
          List.iter (fun (hk, n) ->
            print_endline ("s1\t" ^ show_term hk ^ "\t" ^ (match n with
              | PBin (l, r) -> "B\t" ^ show_term l ^ "\t" ^ show_term r
              | PEdge (p, c) -> "E\t" ^ show_bits p ^ "\t" ^ show_term c)))
            (set_of1 heqb hfun hb ha (h_prove1 pos t k));
          print_endline ("v2\t" ^ show_res show_term (h_verify2 pos t k));
          print_endline ("v1\t" ^ show_res show_term (h_verify1 pos t k))) keys
    | ("range2" | "range1" | "range2c" as cmd) :: h :: rest ->
        (* range2 <height> ops | first | k:v ... | nil / left right | mutations *)
        let hn = nat_of_int (int_of_string h) in
        let rec parts acc cur = function
          | [] -> List.rev (List.rev cur :: acc)
          | "|" :: r -> parts (List.rev cur :: acc) [] r
          | x :: r -> parts acc (x :: cur) r in
        (match parts [] [] rest with
         | [ops; [first]; kvs; proof; muts] ->
             let t = h_run hn (List.map kv ops) in
             let bits s = bits_of_Z hn (z_of_hex s) in
             let kvs = List.map (fun s -> let (k, v) = kv s in (bits_of_Z hn k, HC v)) kvs in
             if cmd = "range2c" then begin
               (* the certified verifier (Proofs_F.range2_cert_sound) *)
               let proof = match proof with
                 | ["nil"] -> None
                 | [l; r] -> Some (apply_muts (h_range_proof2 t (bits l) (bits r)) muts)
                 | _ -> failwith "range2c proof" in
               print_endline (show_rres (h_range2_cert hn t (bits first) kvs proof))
             end else if cmd = "range2" then begin
               let proof = match proof with
                 | ["nil"] -> None
                 | [l; r] -> Some (apply_muts (h_range_proof2 t (bits l) (bits r)) muts)
                 | _ -> failwith "range2 proof" in
               print_endline (show_rres (h_range2 t (bits first) kvs proof))
             end else begin
               let proof = match proof with
                 | ["nil"] -> None
                 | [l; r] -> Some (List.fold_left apply_mut1 (h_range_proof1 t (bits l) (bits r)) muts)
                 | _ -> failwith "range1 proof" in
               print_endline (show_rres (h_range1 hn t (bits first) kvs proof))
             end
         | _ -> failwith "range2 parts")
    | "rpcslot" :: cv :: sr :: cr :: kr :: addr :: cls :: nonce :: sroot :: h1 :: h2 :: h3 :: key :: rest ->
        (* rpcslot commit state_root croot kroot addrbits class nonce sroot h1 h2 h3 keybits | contract entries | storage entries *)
        let rec parts acc cur = function
          | [] -> List.rev (List.rev cur :: acc)
          | "|" :: r -> parts (List.rev cur :: acc) [] r
          | x :: r -> parts acc (x :: cur) r in
        let z = z_of_hex in
        let tb = ref [((z cls, z sroot), z h1); ((z h1, z nonce), z h2); ((z h2, Z0), z h3)] in
        let entry e = match String.split_on_char '=' e with
          | [hk; body] ->
              (match String.split_on_char ',' body with
               | ["B"; l; r; inner] ->
                   let l = cval (parse_child l) and r = cval (parse_child r) in
                   tb := ((l, r), z inner) :: !tb; (z hk, PBin (l, r))
               | ["E"; bits; c; inner] ->
                   let p = parse_bits bits and c = cval (parse_child c) in
                   tb := ((c, z_of_path p), z inner) :: !tb; (z hk, PEdge (p, c))
               | _ -> failwith ("entry body " ^ body))
          | _ -> failwith ("entry " ^ e) in
        (match parts [] [] rest with
         | [[]; cp; sp] | [cp; sp] ->
             let cp = List.map entry cp and sp = List.map entry sp in
             print_endline (show_res hex_of_z (z_rpc_slot (List.rev !tb) (z cv) (z sr) (z cr) (z kr) cp (parse_bits addr)
                                                 (z cls) (z nonce) (z sroot) sp (parse_bits key)))
         | _ -> failwith "rpcslot parts")
    | "verify" :: kind :: root :: keybits :: entries ->
        let root = z_of_hex root and k = parse_bits keybits in
        let tb = ref [] in
        let ps = List.map (fun e ->
          match String.split_on_char '=' e with
          | [hk; body] ->
              (match String.split_on_char ',' body with
               | ["B"; l; r; inner] ->
                   let l = parse_child l and r = parse_child r in
                   tb := ((cval l, cval r), z_of_hex inner) :: !tb;
                   (z_of_hex hk, QBin (l, r))
               | ["E"; bits; c; inner] ->
                   let p = parse_bits bits and c = parse_child c in
                   tb := ((cval c, z_of_path p), z_of_hex inner) :: !tb;
                   (z_of_hex hk, QEdge (p, c))
               | _ -> failwith ("entry body " ^ body))
          | _ -> failwith ("entry " ^ e)) entries in
        let tb = List.rev !tb in
        let res = match kind with
          | "v2" -> z_verify2 false tb root k ps
          | "v2s" -> z_verify2 true tb root k ps
          | "v1" -> z_verify1 tb root k (z_erase_set ps)
          | "vw" -> z_verifyW tb root k (z_erase_set ps)
          | _ -> failwith "verify kind" in
        print_endline (show_res hex_of_z res)
    | _ -> failwith ("bad request: " ^ line));
    print_endline "end"; flush stdout)
