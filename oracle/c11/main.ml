(* C11 oracle.  Line protocol (tokens separated by one space, byte strings in hex):
     M <n> { <name> <np> { <pname> <0|1 optional> <int|str|bool|struct|optint> } }      -> "ok" followed by the methods whose optional parameters are not a tail
     W                                                                                     -> "window <isBatch window> <max nesting depth>"
     B <hex of the raw request bytes | -> (empty input)>                                  -> 1 line; the input becomes the current one
     Q <N | json> <ncalls> { <name> <json array> }     (an observation of the implementation on the current input) -> 3 lines
   json ::= n | t | f | #<hex literal> | s<hex> | [<n> json*n | {<n> (k<hex> json)*n
   Reply to B (everything computed by the extracted Coq lexer / parser from the raw bytes):
     parsed <0|1 is_batch> <length of the bytes after the first value | -1> wf=<b json_wf> rt=<b parse (print v) = v> <U | json>
   Reply to Q (the model consumes the value the COQ parser produced):
     flags eq=<b> wf=<b> corr=<b> codes=<b> once=<b> cons=<b grammar_ok> devs=<names joined by + or ->
     model <N|json> <ncalls> {<name> <json array>}
     spec  <N|json> <ncalls> {<name> <json array>}
   eq   : the observation equals [handle] (multisets, error.data ignored)
   wf/corr/codes/once : the property predicates evaluated on the OBSERVATION
   devs : which of the modelled deviation situations the input is in *)
let byte_of_int (i : int) : ascii = ascii_of_N (n_of_int i)
let int_of_byte (b : ascii) : int = int_of_n (n_of_ascii b)

let str_of_hex (s : string) : ascii list =
  let n = String.length s / 2 in
  let rec go i acc = if i < 0 then acc else go (i - 1) (byte_of_int (16 * hexval s.[2*i] + hexval s.[2*i+1]) :: acc) in
  go (n - 1) []
let hex_of_str (b : Buffer.t) (l : ascii list) : unit =
  List.iter (fun c -> Buffer.add_string b (Printf.sprintf "%02x" (int_of_byte c))) l

let tail (w : string) : string = String.sub w 1 (String.length w - 1)

let rec pj (t : string array) (p : int ref) : json =
  let w = t.(!p) in
  incr p;
  match w.[0] with
  | 'n' -> JNull
  | 't' -> JBool true
  | 'f' -> JBool false
  | '#' -> JNum (str_of_hex (tail w))
  | 's' -> JStr (str_of_hex (tail w))
  | '[' ->
      let n = int_of_string (tail w) in
      let acc = ref [] in
      for _ = 1 to n do acc := pj t p :: !acc done;
      JArr (List.rev !acc)
  | '{' ->
      let n = int_of_string (tail w) in
      let acc = ref [] in
      for _ = 1 to n do
        let k = str_of_hex (tail t.(!p)) in
        incr p;
        let v = pj t p in
        acc := (k, v) :: !acc
      done;
      JObj (List.rev !acc)
  | _ -> failwith ("json token: " ^ w)

let rec sj (b : Buffer.t) (j : json) : unit =
  match j with
  | JNull -> Buffer.add_string b "n"
  | JBool true -> Buffer.add_string b "t"
  | JBool false -> Buffer.add_string b "f"
  | JNum s -> Buffer.add_char b '#'; hex_of_str b s
  | JStr s -> Buffer.add_char b 's'; hex_of_str b s
  | JArr l ->
      Buffer.add_string b (Printf.sprintf "[%d" (List.length l));
      List.iter (fun x -> Buffer.add_char b ' '; sj b x) l
  | JObj kvs ->
      Buffer.add_string b (Printf.sprintf "{%d" (List.length kvs));
      List.iter (fun (k, v) -> Buffer.add_string b " k"; hex_of_str b k; Buffer.add_char b ' '; sj b v) kvs

let popt (t : string array) (p : int ref) (none : string) : json option =
  if t.(!p) = none then (incr p; None) else Some (pj t p)

let pcalls (t : string array) (p : int ref) =
  let n = int_of_string t.(!p) in
  incr p;
  let acc = ref [] in
  for _ = 1 to n do
    let name = str_of_hex (tail t.(!p)) in
    incr p;
    let args = match pj t p with JArr l -> l | _ -> failwith "call args" in
    acc := (name, args) :: !acc
  done;
  List.rev !acc

let sobs (tag : string) ((calls, out) : (ascii list * json list) list * json option) : string =
  let b = Buffer.create 256 in
  Buffer.add_string b tag;
  Buffer.add_char b ' ';
  (match out with None -> Buffer.add_string b "N" | Some j -> sj b j);
  Buffer.add_string b (Printf.sprintf " %d" (List.length calls));
  List.iter (fun (name, args) -> Buffer.add_string b " k"; hex_of_str b name; Buffer.add_char b ' '; sj b (JArr args)) calls;
  Buffer.contents b

let ty_of = function
  | "int" -> TInt | "str" -> TStr | "bool" -> TBool | "struct" -> TStruct | "optint" -> TOptInt
  | s -> failwith ("ty " ^ s)

let ms : methods ref = ref []
let cur : input ref = ref { i_bracket = false; i_parsed = None }

let b01 x = if x then "1" else "0"

let () =
  read_lines (fun line ->
    let t = Array.of_list (String.split_on_char ' ' (String.trim line)) in
    let p = ref 1 in
    (match t.(0) with
     | "M" ->
         let n = int_of_string t.(!p) in
         incr p;
         let acc = ref [] in
         for _ = 1 to n do
           let name = str_of_hex (tail t.(!p)) in
           incr p;
           let np = int_of_string t.(!p) in
           incr p;
           let ps = ref [] in
           for _ = 1 to np do
             let pn = str_of_hex (tail t.(!p)) in
             let opt = t.(!p + 1) = "1" in
             let ty = ty_of t.(!p + 2) in
             p := !p + 3;
             ps := { p_name = pn; p_optional = opt; p_ty = ty } :: !ps
           done;
           acc := { m_name = name; m_params = List.rev !ps } :: !acc
         done;
         ms := List.rev !acc;
         (* methods outside the hypothesis of C11_positional_eq_named (optional parameters not a tail) *)
         let b = Buffer.create 64 in
         List.iter (fun m -> if not (optional_tail m.m_params) then (Buffer.add_string b " k"; hex_of_str b m.m_name)) !ms;
         print_endline ("ok" ^ Buffer.contents b)
     | "W" -> Printf.printf "window %d %d\n" (int_of_nat batch_window) (int_of_nat max_depth)
     | "B" ->
         let bytes = if Array.length t < 2 || t.(1) = "-" then [] else str_of_hex t.(1) in
         let bracket = is_batch bytes in
         let pf = parse_first bytes in
         cur := { i_bracket = bracket; i_parsed = (match pf with Some (v, _) -> Some v | None -> None) };
         let b = Buffer.create 256 in
         (match pf with
          | None -> Buffer.add_string b (Printf.sprintf "parsed %s -1 wf=1 rt=1 U" (b01 bracket))
          | Some (v, rest) ->
              let wf = json_wf max_depth v in
              (* run-time instance of C11_json_print_parse; the canonical printer is neither tail recursive nor
                 linear on deep nesting, so only for inputs up to 4 KB *)
              let rt = List.compare_length_with bytes 4096 > 0 ||
                       (match parse_first (print v) with
                        | Some (v', []) -> json_eqb v v'
                        | _ -> false) in
              Buffer.add_string b (Printf.sprintf "parsed %s %d wf=%s rt=%s " (b01 bracket) (List.length rest) (b01 wf) (b01 rt));
              sj b v);
         print_endline (Buffer.contents b)
     | "Q" ->
         let out = popt t p "N" in
         let calls = pcalls t p in
         let inp = !cur in
         let model = handle coerce_go zero_go run_echo !ms inp in
         let spec = spec_handle coerce_go zero_go run_echo !ms inp in
         let obs = (calls, out) in
         let devs =
           (if dev_batch_window inp then ["batch-detection-window"] else [])
           @ (if dev_non_object inp then ["non-object-request-code"] else [])
           @ (if dev_ill_typed inp then ["ill-typed-member-code"] else [])
           @ (if dev_null_id coerce_go zero_go !ms inp then ["null-id-treated-as-notification"] else [])
           @ (if dev_notif_error coerce_go zero_go !ms inp then ["notification-error-response"] else []) in
         Printf.printf "flags eq=%s wf=%s corr=%s codes=%s once=%s cons=%s devs=%s\n"
           (b01 (obs_eqb obs model))
           (b01 (resp_wellformed out))
           (b01 (resp_correlated coerce_go zero_go run_echo !ms inp out))
           (b01 (codes coerce_go zero_go run_echo !ms inp out))
           (b01 (calls_once coerce_go zero_go run_echo !ms inp calls))
           (b01 (grammar_ok inp))
           (if devs = [] then "-" else String.concat "+" devs);
         print_endline (sobs "model" model);
         print_endline (sobs "spec" spec)
     | w -> failwith ("command: " ^ w));
    flush stdout)
