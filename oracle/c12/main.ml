(* C12 oracle. Line protocol (decimal integers, rounds may be negative, "-" = nil id / empty list):
     new <self> <h0> <M> <invalid csv|-> <values csv> <dflt power> <block>/<block>/...
         block = total;pow0,pow1,...;prop0,prop1,...      (block i = height h0+i, last block repeats)
         vid v = v mod M (M=0: identity); valid v = v not in invalid; k-th Value() = values[k mod len]
         power(h,a) = pow[a] (a < len) else dflt; proposer(h,r) = prop[r euclid-mod len]
     in <input> | <actions of the implementation>     -> "<fuel exhausted 0/1> <height> <model actions>"
         input  = start r | prop h r from vr val | pv h r from id | pc h r from id | to k h r
                | sync h r from vr val ; h r from id ; h r from id ...     (ProcessSync: proposal ; precommits)
         the implementation's actions of a sync call are split into the inner calls' lists by the model's
         inner lengths (Model.call_impl_events) before they go to the monitor
     walnew     -> (no reply) a second model state machine (the replay instance) at init_state h0
     wal <entry> | <actions of the replay implementation>  -> like "in", for ProcessWAL on the replay instance
         entry  = ws:h | wp:h,r,from,vr,val | wv:h,r,from,id | wc:h,r,from,id | wt:k,h,r
     wdump <probe ids>  -> like dump, for the replay instance
     walcmp     -> "<wal_disciplined of the live inputs 0/1> <st_sim_b replayed live 0/1> <acts_eqb replay live 0/1>
                    <replay calls disciplined 0/1> <failure codes of the replay's events csv|-> <no_double_vote 0/1>
                    <wal_replay_same of the live inputs, from the model alone 0/1>
                    <which clause the first undisciplined live input broke|->"
     audit      -> "<disciplined 0/1> <failure codes csv|-> <no_double_vote 0/1>"   (on the implementation's events)
     fq <hex N> -> "<hex f> <hex q>"
     agree h:id,h:id,...  -> "0/1"
     dump <probe ids csv, "nil" = nil id>  -> canonical text of the model's whole state (consensus variables, vote counter
         with every ballot, future-height buffer) and countVote of every round of the current height for the probe ids *)
let ni s = n_of_int (int_of_string s)
let zi s = z_of_int (int_of_string s)
let sn x = string_of_int (int_of_n x)
let sz x = string_of_int (int_of_z x)
let csv s = if s = "-" then [] else String.split_on_char ',' s
let oid s = if s = "-" then None else Some (ni s)
let soid = function None -> "-" | Some i -> sn i

let phase_of s = match s with "0" -> SPropose | "1" -> SPrevote | "2" -> SPrecommit | _ -> failwith "phase"
let sphase = function SPropose -> "0" | SPrevote -> "1" | SPrecommit -> "2"

let prop_of = function
  | [h; r; f; vr; v] -> { p_h = ni h; p_r = zi r; p_from = ni f; p_vr = zi vr; p_val = ni v }
  | _ -> failwith "proposal"
let vote_of = function
  | [h; r; f; i] -> { v_h = ni h; v_r = zi r; v_from = ni f; v_id = oid i }
  | _ -> failwith "vote"
let sprop p = String.concat "," [sn p.p_h; sz p.p_r; sn p.p_from; sz p.p_vr; sn p.p_val]
let svote v = String.concat "," [sn v.v_h; sz v.v_r; sn v.v_from; soid v.v_id]

let parse_input (ws : string list) : input = match ws with
  | ["start"; r] -> IStart (zi r)
  | "prop" :: rest -> IProposal (prop_of rest)
  | "pv" :: rest -> IPrevote (vote_of rest)
  | "pc" :: rest -> IPrecommit (vote_of rest)
  | ["to"; k; h; r] -> ITimeout (phase_of k, ni h, zi r)
  | _ -> failwith ("input: " ^ String.concat " " ws)

let rec split_semi acc cur = function
  | [] -> List.rev (List.rev cur :: acc)
  | ";" :: r -> split_semi (List.rev cur :: acc) [] r
  | x :: r -> split_semi acc (x :: cur) r

let parse_call (ws : string list) : call = match ws with
  | "sync" :: rest ->
      (match split_semi [] [] rest with
       | p :: pcs -> KSync (prop_of p, List.map vote_of (List.filter (fun l -> l <> []) pcs))
       | [] -> failwith "sync")
  | _ -> KIn (parse_input ws)

let parse_action (s : string) : action =
  match String.split_on_char ':' s with
  | [tag; body] ->
      let fs = String.split_on_char ',' body in
      (match tag, fs with
       | "ws", [h] -> AWalStart (ni h)
       | "wp", _ -> AWalProposal (prop_of fs)
       | "wv", _ -> AWalPrevote (vote_of fs)
       | "wc", _ -> AWalPrecommit (vote_of fs)
       | "wt", [k; h; r] -> AWalTimeout (phase_of k, ni h, zi r)
       | "bp", _ -> ABroadcastProposal (prop_of fs)
       | "bv", _ -> ABroadcastPrevote (vote_of fs)
       | "bc", _ -> ABroadcastPrecommit (vote_of fs)
       | "st", [k; h; r] -> ASchedule (phase_of k, ni h, zi r)
       | "cm", _ -> ACommit (prop_of fs)
       | "ts", [a; b] -> ATriggerSync (ni a, ni b)
       | _ -> failwith ("action: " ^ s))
  | _ -> failwith ("action: " ^ s)

let show_action = function
  | AWalStart h -> "ws:" ^ sn h
  | AWalProposal p -> "wp:" ^ sprop p
  | AWalPrevote v -> "wv:" ^ svote v
  | AWalPrecommit v -> "wc:" ^ svote v
  | AWalTimeout (k, h, r) -> "wt:" ^ sphase k ^ "," ^ sn h ^ "," ^ sz r
  | ABroadcastProposal p -> "bp:" ^ sprop p
  | ABroadcastPrevote v -> "bv:" ^ svote v
  | ABroadcastPrecommit v -> "bc:" ^ svote v
  | ASchedule (k, h, r) -> "st:" ^ sphase k ^ "," ^ sn h ^ "," ^ sz r
  | ACommit p -> "cm:" ^ sprop p
  | ATriggerSync (a, b) -> "ts:" ^ sn a ^ "," ^ sn b

type block = { total : int; pows : int array; props : int array }

let mk_cfg self h0 m invalid values dflt (blocks : block array) : cfg =
  let blk h = let i = int_of_n h - h0 in
    let i = if i < 0 then 0 else if i >= Array.length blocks then Array.length blocks - 1 else i in blocks.(i) in
  { c_self = n_of_int self;
    c_total = (fun h -> n_of_int (blk h).total);
    c_power = (fun h a -> let b = blk h in let a = int_of_n a in
                n_of_int (if a < Array.length b.pows then b.pows.(a) else dflt));
    c_proposer = (fun h r -> let b = blk h in let l = Array.length b.props in
                   let r = int_of_z r in n_of_int b.props.(((r mod l) + l) mod l));
    c_valid = (fun v -> not (List.mem (int_of_n v) invalid));
    c_vid = (fun v -> if m = 0 then v else n_of_int (int_of_n v mod m));
    c_value_at = (fun k -> n_of_int values.(int_of_n k mod Array.length values)) }


(* ---------- canonical dump of the model's whole state (compared with the implementation's, read through
   the verif hooks tendermint.VerifInspect / VoteCounter.VerifDump, after every call) ---------- *)
let hx = hex_of_n
let b01 b = if b then "1" else "0"
let sbal (b : bset) : string =
  let l = List.sort compare (List.map (fun (a, (p, c)) -> (int_of_n a, p, c)) b.b_bal) in
  hx b.b_pv ^ "/" ^ hx b.b_pc ^ "/" ^ hx b.b_tot ^ "[" ^
  String.concat "," (List.map (fun (a, p, c) -> string_of_int a ^ ":" ^ b01 p ^ b01 c) l) ^ "]"
let srd (rd : rdata) : string =
  let ids = List.sort (fun (a, _) (b, _) -> compare a b) (List.map (fun (i, b) -> (int_of_n i, b)) rd.r_ids) in
  "{" ^ (match rd.r_prop with None -> "nil" | Some p -> sprop p) ^ "|" ^ hx rd.r_unc ^ "|" ^
  String.concat ";" (List.map (fun (i, b) -> string_of_int i ^ "=" ^ sbal b) ids) ^ "|" ^
  sbal rd.r_nil ^ "|" ^ sbal rd.r_all ^ "}"
let sorted_rounds (m : rmap) = List.sort (fun (a, _) (b, _) -> compare a b) (List.map (fun (r, d) -> (int_of_z r, d)) m)
let srm (m : rmap) : string =
  String.concat " " (List.map (fun (r, d) -> "R" ^ string_of_int r ^ srd d) (sorted_rounds m))
let sov = function None -> "-" | Some v -> sn v
let dump_state (c : cfg) (s : state) (probe : n option list) : string =
  let vc = s.s_vc in
  let fut = List.sort (fun (a, _) (b, _) -> compare a b) (List.map (fun (h, m) -> (int_of_n h, m)) vc.vc_future) in
  let cnt = List.concat_map (fun (r, d) ->
    List.map (fun id -> "C" ^ string_of_int r ^ ":" ^ soid id ^ "=" ^ hx (r_count_vote d Prevote id) ^ "/" ^
                         hx (r_count_vote d Precommit id)) probe) (sorted_rounds vc.vc_rounds) in
  String.concat " " [ "S"; sn s.s_h; sz s.s_r; sphase s.s_step; sov s.s_lv; sz s.s_lr; sov s.s_vv; sz s.s_vr;
    b01 s.s_tpv; b01 s.s_tpc; b01 s.s_lvs; b01 s.s_started; sn s.s_lts; sn s.s_lq; sn s.s_nval ] ^
  " # VC " ^ sn vc.vc_h ^ " t=" ^ hx (c.c_total vc.vc_h) ^ " f=" ^ hx (vc_faulty c vc) ^ " q=" ^ hx (vc_quorum c vc) ^
  " " ^ srm vc.vc_rounds ^
  " # " ^ String.concat " " (List.map (fun (h, m) -> "F" ^ string_of_int h ^ "(" ^ srm m ^ ")") fut) ^
  " # " ^ String.concat " " cnt

let parse_entry (s : string) : wentry =
  match wal_of_action (parse_action s) with
  | [e] -> e
  | _ -> failwith ("wal entry: " ^ s)

let cfg_ref : cfg option ref = ref None
let st_ref : state option ref = ref None
let h0_ref = ref 0
let evs : event list ref = ref []      (* implementation's events, newest first *)
let disc = ref true
let ins_rev : input list ref = ref []  (* the live inner inputs (Process{Start,Proposal,Prevote,Precommit,Timeout}), newest first *)
let wdisc = ref true                   (* wal_ok_input held for every live inner input *)
let wfirst = ref "-"                   (* kind of the first live inner input that broke the log discipline *)
let acts_rev : action list ref = ref []   (* the live model's actions, newest first *)
(* the replay instance *)
let rp_ref : state option ref = ref None
let rp_evs : event list ref = ref []
let rp_disc = ref true
let rp_acts_rev : action list ref = ref []

let split_bar rest =
  let rec split acc = function
    | "|" :: r -> (List.rev acc, r)
    | x :: r -> split (x :: acc) r
    | [] -> (List.rev acc, []) in
  split [] rest

let ints s = Array.of_list (List.map int_of_string (csv s))

let () =
  read_lines (fun line ->
    match words line with
    | ["new"; self; h0; m; invalid; values; dflt; blocks] ->
        let bl = Array.of_list (List.map (fun b ->
          match String.split_on_char ';' b with
          | [t; p; q] -> { total = int_of_string t; pows = ints p; props = ints q }
          | _ -> failwith "block") (String.split_on_char '/' blocks)) in
        h0_ref := int_of_string h0;
        cfg_ref := Some (mk_cfg (int_of_string self) !h0_ref (int_of_string m)
                           (List.map int_of_string (csv invalid)) (ints values) (int_of_string dflt) bl);
        st_ref := Some (init_state (n_of_int !h0_ref));
        evs := []; disc := true; ins_rev := []; wdisc := true; wfirst := "-"; acts_rev := [];
        rp_ref := None; rp_evs := []; rp_disc := true; rp_acts_rev := []
    | "in" :: rest ->
        let (iw, aw) = split_bar rest in
        let c = Option.get !cfg_ref and s = Option.get !st_ref in
        let x = parse_call iw in
        if not (ok_call s x) then disc := false;
        (* the log discipline, inner call by inner call *)
        ignore (List.fold_left (fun st i ->
          if not (wal_ok_input c st i) then begin
            if !wdisc then wfirst := (match i with
              | IStart _ -> "start-round-not-0"
              | IProposal _ | IPrevote _ -> "message-before-start"
              | IPrecommit _ -> if st.s_started then "precommit-takes-trigger-sync-path" else "message-before-start"
              | ITimeout _ -> if st.s_started then "stale-timeout-with-rule-pending" else "timeout-before-start");
            wdisc := false
          end;
          ins_rev := i :: !ins_rev;
          fst (step c st i)) s (call_inputs x));
        let ((s', acts), ex) = call_step_x c s x in
        st_ref := Some s';
        acts_rev := List.rev_append acts !acts_rev;
        evs := List.rev_append (call_impl_events c s x (List.map parse_action aw)) !evs;
        print_endline ((if ex then "1 " else "0 ") ^ sn s'.s_h ^ " " ^
                       (if acts = [] then "-" else String.concat " " (List.map show_action acts)));
        flush stdout
    | ["walnew"] ->
        rp_ref := Some (init_state (n_of_int !h0_ref)); rp_evs := []; rp_disc := true; rp_acts_rev := []
    | "wal" :: rest ->
        let (iw, aw) = split_bar rest in
        let c = Option.get !cfg_ref and s = Option.get !rp_ref in
        let e = (match iw with [w] -> parse_entry w | _ -> failwith "wal") in
        let x = KWal e in
        if not (ok_call s x) then rp_disc := false;
        let ((s', acts), ex) = call_step_x c s x in
        rp_ref := Some s';
        rp_acts_rev := List.rev_append acts !rp_acts_rev;
        rp_evs := List.rev_append (call_impl_events c s x (List.map parse_action aw)) !rp_evs;
        print_endline ((if ex then "1 " else "0 ") ^ sn s'.s_h ^ " " ^
                       (if acts = [] then "-" else String.concat " " (List.map show_action acts)));
        flush stdout
    | ["wdump"; ids] ->
        let c = Option.get !cfg_ref and s = Option.get !rp_ref in
        print_endline (dump_state c s (List.map (fun x -> if x = "nil" then None else Some (ni x)) (csv ids))); flush stdout
    | ["walcmp"] ->
        let c = Option.get !cfg_ref and live = Option.get !st_ref and rp = Option.get !rp_ref in
        let b x = if x then "1" else "0" in
        let e = List.rev !rp_evs in
        let codes = List.sort_uniq compare (List.map int_of_n (audit c (n_of_int !h0_ref) e)) in
        print_endline (String.concat " " [
          b !wdisc; b (st_sim_b rp live); b (acts_eqb (List.rev !rp_acts_rev) (List.rev !acts_rev)); b !rp_disc;
          (if codes = [] then "-" else String.concat "," (List.map string_of_int codes));
          b (no_double_vote (all_actions e));
          b (wal_replay_same c (init_state (n_of_int !h0_ref)) (List.rev !ins_rev)); !wfirst ]);
        flush stdout
    | ["dump"; ids] ->
        let c = Option.get !cfg_ref and s = Option.get !st_ref in
        print_endline (dump_state c s (List.map (fun x -> if x = "nil" then None else Some (ni x)) (csv ids))); flush stdout
    | ["audit"] ->
        let c = Option.get !cfg_ref in
        let e = List.rev !evs in
        let codes = List.sort_uniq compare (List.map int_of_n (audit c (n_of_int !h0_ref) e)) in
        print_endline ((if !disc then "1 " else "0 ") ^
                       (if codes = [] then "-" else String.concat "," (List.map string_of_int codes)) ^
                       (if no_double_vote (all_actions e) then " 1" else " 0"));
        flush stdout
    | ["fq"; x] ->
        let n = n_of_hex x in
        print_endline (hex_of_n (f_of n) ^ " " ^ hex_of_n (q_of n)); flush stdout
    | ["agree"; l] ->
        let ds = List.map (fun e -> match String.split_on_char ':' e with
          | [h; i] -> (ni h, ni i) | _ -> failwith "agree") (csv l) in
        print_endline (if decisions_agree ds then "1" else "0"); flush stdout
    | [] -> ()
    | _ -> failwith ("oracle: bad line: " ^ line))
