(* C13 oracle. Line protocol (decimal integers; "-" = nil id / empty list):
     new <self> <h0> <M> <invalid csv|-> <values csv> <dflt power> <block>/<block>/...
         as in the C12 oracle; Value() asked after n earlier calls = values[n mod len] (any height/round).
         Resets the model's log directory to empty.   (no reply)
     life <h> <calls> <k> <input>/<input>/...|-
         one life of the validator process booted at height h on the model's current log directory, the
         application having answered <calls> Value() calls before; inputs as in C12 (start r | prop .. | pv .. |
         pc .. | to k h r), words separated by '_' or ' '.
         Reply: one line per state machine call "<label> => <effects>", then
                "= <height> <started 0/1> <calls> <n effects> <resume height if crashed at k> <plain_run 0/1/-> <life_disc 0/1/-> <live_plain of a restarted life 0/1/-> <replay_quiet 0/1/->", then "end".
         k >= 0: the process is killed after its first k effects; the log directory becomes crash_at k.
         k = -1: clean run to the end of the inputs, directory unchanged (what-if run).
     verdict <h0>         -> "<no_conflict> <resume> <flush+logged>" on (effects before the last crash, last life)
     check <h0> ; <pre effects> ; <step> | <step> | ...   -> "<no_conflict> <resume> <flush_before_visible> <logged_first>"
         the same extracted predicates on the implementation's observations
     flife <h> <calls> <fault> <input>/...|-      fault = fail:<k>:<performed 0/1>:<close ok 0/1> | cancel:<k>:<close ok 0/1>
         a life that ends through the regular return path of driver.Run (Model.fault_outcome): the operation that
         would be effect number k fails / the context is cancelled after k effects.  Reply as for life; the last
         printed step carries "!<effect>" for the operation that failed without being performed (a refused commit
         callback included), "!!" after an operation that was performed and reported failure.  Summary line:
         "= <height> <started> <calls> <n effects performed> <resume height> <plain live phase 0/1/-> <life_disc> - <stop_ok 0/1> <script valid 0/1> <flushed 0/1> <stop/restart same state 0/1/->"
         The model's log directory becomes end_disk.
     disk                 -> "<pruned up to> <entry> ..." : LoadAllEntries of the model's current log directory
     diskat <j>           -> the same for the directory as it is after the first j effects of the last life/flife
     covers <lo> ; <effects> ; <entries>   -> "<log_covers_visible> <prunes_follow_cb> <clean_when_visible>" on the
         implementation's effects and the entries read back from its log directory *)
let ni s = n_of_int (int_of_string s)
let zi s = z_of_int (int_of_string s)
let sn x = string_of_int (int_of_n x)
let sz x = string_of_int (int_of_z x)
let csv s = if s = "-" then [] else String.split_on_char ',' s
let oid s = if s = "-" then None else Some (ni s)
let soid = function None -> "-" | Some i -> sn i
let phase_of s = match s with "0" -> SPropose | "1" -> SPrevote | "2" -> SPrecommit | _ -> failwith "phase"
let sphase = function SPropose -> "0" | SPrevote -> "1" | SPrecommit -> "2"
let prop_of = function
  | [h; r; f; vr; v] -> { p_h = ni h; p_r = zi r; p_from = ni f; p_vr = zi vr; p_val = ni v }
  | _ -> failwith "proposal"
let vote_of = function
  | [h; r; f; i] -> { v_h = ni h; v_r = zi r; v_from = ni f; v_id = oid i }
  | _ -> failwith "vote"
let sprop p = String.concat "," [sn p.p_h; sz p.p_r; sn p.p_from; sz p.p_vr; sn p.p_val]
let svote v = String.concat "," [sn v.v_h; sz v.v_r; sn v.v_from; soid v.v_id]

let parse_input (ws : string list) : input = match ws with
  | ["start"; r] -> IStart (zi r)
  | "prop" :: rest -> IProposal (prop_of rest)
  | "pv" :: rest -> IPrevote (vote_of rest)
  | "pc" :: rest -> IPrecommit (vote_of rest)
  | ["to"; k; h; r] -> ITimeout (phase_of k, ni h, zi r)
  | _ -> failwith ("input: " ^ String.concat " " ws)
let show_input = function
  | IStart r -> "start " ^ sz r
  | IProposal p -> "prop " ^ String.concat " " [sn p.p_h; sz p.p_r; sn p.p_from; sz p.p_vr; sn p.p_val]
  | IPrevote v -> "pv " ^ String.concat " " [sn v.v_h; sz v.v_r; sn v.v_from; soid v.v_id]
  | IPrecommit v -> "pc " ^ String.concat " " [sn v.v_h; sz v.v_r; sn v.v_from; soid v.v_id]
  | ITimeout (k, h, r) -> "to " ^ sphase k ^ " " ^ sn h ^ " " ^ sz r

let parse_entry (s : string) : entry =
  match String.split_on_char ':' s with
  | [tag; body] ->
      let fs = String.split_on_char ',' body in
      (match tag, fs with
       | "ws", [h] -> EStart (ni h)
       | "wp", _ -> EProposal (prop_of fs)
       | "wv", _ -> EPrevote (vote_of fs)
       | "wc", _ -> EPrecommit (vote_of fs)
       | "wt", [k; h; r] -> ETimeout (phase_of k, ni h, zi r)
       | _ -> failwith ("entry: " ^ s))
  | _ -> failwith ("entry: " ^ s)
let show_entry = function
  | EStart h -> "ws:" ^ sn h
  | EProposal p -> "wp:" ^ sprop p
  | EPrevote v -> "wv:" ^ svote v
  | EPrecommit v -> "wc:" ^ svote v
  | ETimeout (k, h, r) -> "wt:" ^ sphase k ^ "," ^ sn h ^ "," ^ sz r

let parse_effect (s : string) : effect =
  if s = "fl" then Flush else
  match String.split_on_char ':' s with
  | [tag; body] ->
      let fs = String.split_on_char ',' body in
      (match tag, fs with
       | ("ws" | "wp" | "wv" | "wc" | "wt"), _ -> Append (parse_entry s)
       | "bp", _ -> Bcast (MProposal (prop_of fs))
       | "bv", _ -> Bcast (MPrevote (vote_of fs))
       | "bc", _ -> Bcast (MPrecommit (vote_of fs))
       | "st", [k; h; r] -> Sched (phase_of k, ni h, zi r)
       | "cb", [h; v] -> CommitCb (ni h, ni v)
       | "pr", [h] -> Prune (ni h)
       | _ -> failwith ("effect: " ^ s))
  | _ -> failwith ("effect: " ^ s)
let show_effect = function
  | Append e -> show_entry e
  | Flush -> "fl"
  | Bcast (MProposal p) -> "bp:" ^ sprop p
  | Bcast (MPrevote v) -> "bv:" ^ svote v
  | Bcast (MPrecommit v) -> "bc:" ^ svote v
  | Sched (k, h, r) -> "st:" ^ sphase k ^ "," ^ sn h ^ "," ^ sz r
  | CommitCb (h, v) -> "cb:" ^ sn h ^ "," ^ sn v
  | Prune h -> "pr:" ^ sn h
let show_label = function LIn i -> show_input i | LWal e -> "wal " ^ show_entry e
let show_step ((l, effs) : step_tr) =
  show_label l ^ " => " ^ (if effs = [] then "-" else String.concat " " (List.map show_effect effs))

let wsplit s = List.filter (fun x -> x <> "") (String.split_on_char ' ' (String.trim s))
let parse_label (ws : string list) : label = match ws with
  | ["wal"; e] -> LWal (parse_entry e)
  | _ -> LIn (parse_input ws)
(* "<label> => <effects>" *)
let parse_step (s : string) : step_tr =
  let ws = wsplit s in
  let rec split acc = function
    | "=>" :: r -> (List.rev acc, r)
    | x :: r -> split (x :: acc) r
    | [] -> (List.rev acc, []) in
  let (lw, ew) = split [] ws in
  (parse_label lw, if ew = ["-"] then [] else List.map parse_effect ew)

type block = { total : int; pows : int array; props : int array }
let ints s = Array.of_list (List.map int_of_string (csv s))

let mk_env self h0 m invalid values dflt (blocks : block array) : env =
  let blk h = let i = int_of_n h - h0 in
    let i = if i < 0 then 0 else if i >= Array.length blocks then Array.length blocks - 1 else i in blocks.(i) in
  { e_cfg =
      { c_self = n_of_int self;
        c_total = (fun h -> n_of_int (blk h).total);
        c_power = (fun h a -> let b = blk h in let a = int_of_n a in
                    n_of_int (if a < Array.length b.pows then b.pows.(a) else dflt));
        c_proposer = (fun h r -> let b = blk h in let l = Array.length b.props in
                       let r = int_of_z r in n_of_int b.props.(((r mod l) + l) mod l));
        c_valid = (fun v -> not (List.mem (int_of_n v) invalid));
        c_vid = (fun v -> if m = 0 then v else n_of_int (int_of_n v mod m));
        c_value_at = (fun _ -> N0) };
    e_val = (fun _ _ n -> n_of_int values.(int_of_n n mod Array.length values)) }

let last_effs : effect list ref = ref []         (* all effects of the fault-free version of the last life *)
let last_dur : wrec list ref = ref []            (* the directory it booted on *)
let show_disk (d : wrec list) =
  String.concat " " (sn (pruned_upto d) :: List.map show_entry (load d))
let rec drop_last = function [] -> [] | [_] -> [] | x :: r -> x :: drop_last r
let env_ref : env option ref = ref None
let det_ref = ref false                          (* Value() answers the same whenever it is asked: value_deterministic *)
let durable : wrec list ref = ref []
let pre_ref : effect list ref = ref []          (* effects before the last crash *)
let post_ref : step_tr list ref = ref []        (* trace of the last life *)
let b01 b = if b then "1" else "0"

let rec take k l = if k <= 0 then [] else match l with [] -> [] | x :: r -> x :: take (k - 1) r

let show_verdict ((nc, rs), fl) = b01 nc ^ " " ^ b01 rs ^ " " ^ b01 fl

let () =
  read_lines (fun line ->
    match words line with
    | ["new"; self; h0; m; invalid; values; dflt; blocks] ->
        let bl = Array.of_list (List.map (fun b ->
          match String.split_on_char ';' b with
          | [t; p; q] -> { total = int_of_string t; pows = ints p; props = ints q }
          | _ -> failwith "block") (String.split_on_char '/' blocks)) in
        env_ref := Some (mk_env (int_of_string self) (int_of_string h0) (int_of_string m)
                           (List.map int_of_string (csv invalid)) (ints values) (int_of_string dflt) bl);
        det_ref := (let v = ints values in Array.for_all (fun x -> x = v.(0)) v);
        durable := []; pre_ref := []; post_ref := []
    | "life" :: h :: calls :: k :: rest ->
        let e = Option.get !env_ref in
        let ins_s = String.concat " " rest in
        let ins = if ins_s = "-" || ins_s = "" then [] else
          List.map (fun s -> parse_input (List.filter (fun x -> x <> "")
                      (String.split_on_char ' ' (String.map (fun c -> if c = '_' then ' ' else c) s))))
            (String.split_on_char '/' ins_s) in
        let k = int_of_string k in
        let dur_before = !durable in
        let (d, tr) = lifetime e (ni h) !durable (ni calls) ins in
        let effs = flat tr in
        last_effs := effs; last_dur := dur_before;
        (* print the steps; with a crash, only what happened before it (the step in which it died is cut) *)
        let budget = ref (if k < 0 then max_int else k) in
        let shown = ref [] in
        List.iter (fun (l, es) ->
          if !budget >= 0 then begin
            let n = List.length es in
            if k < 0 || n <= !budget then (shown := (l, es) :: !shown; budget := !budget - n)
            else (shown := (l, take !budget es) :: !shown; budget := -1)
          end) tr;
        let shown = List.rev !shown in
        List.iter (fun st -> print_endline (show_step st)) shown;
        post_ref := shown;
        let resume =
          if k >= 0 then begin
            let pre = take k effs in
            let r = resume_height (ni h) pre in
            durable := crash_at (nat_of_int k) effs !durable;
            pre_ref := pre; sn r
          end else "-" in
        (* hypotheses of the theorems, evaluated on this life: plain run (only for a life on an empty log) and
           the calling discipline *)
        let plain = if k < 0 && dur_before = [] && int_of_string calls = 0 then b01 (plain_run e (ni h) ins) else "-" in
        let disc = if k < 0 then b01 (life_disc e (ni h) dur_before (ni calls) ins) else "-" in
        (* the live phase of a later life is plain: hypothesis of the step of Worlds *)
        let lg = if k < 0 && not (dur_before = [] && int_of_string calls = 0)
                 then b01 (live_plain e (fst (recover e (ni h) dur_before (ni calls))) ins) else "-" in
        (* no call of this recovery returns TriggerSync: the side condition of the st_sim statements *)
        let rq = if dur_before = [] then "-" else b01 (replay_quiet e (ni h) dur_before (ni calls)) in
        print_endline ("= " ^ sn d.d_sm.s_h ^ " " ^ b01 d.d_sm.s_started ^ " " ^ sn d.d_calls ^ " " ^
                       string_of_int (List.length effs) ^ " " ^ resume ^ " " ^ plain ^ " " ^ disc ^ " " ^ lg ^ " " ^ rq);
        print_endline "end"; flush stdout
    | "flife" :: h :: calls :: fs :: rest ->
        let e = Option.get !env_ref in
        let ins_s = String.concat " " rest in
        let ins = if ins_s = "-" || ins_s = "" then [] else
          List.map (fun s -> parse_input (List.filter (fun x -> x <> "")
                      (String.split_on_char ' ' (String.map (fun c -> if c = '_' then ' ' else c) s))))
            (String.split_on_char '/' ins_s) in
        let f = match String.split_on_char ':' fs with
          | ["fail"; k; p; c] -> FFail (nat_of_int (int_of_string k), p = "1", c = "1")
          | ["cancel"; k; c] -> FCancel (nat_of_int (int_of_string k), c = "1")
          | _ -> failwith ("fault: " ^ fs) in
        let dur_before = !durable in
        let (d, tr) = lifetime e (ni h) dur_before (ni calls) ins in
        let effs = flat tr in
        last_effs := effs; last_dur := dur_before;
        let o = fault_outcome tr f in
        let performed = (match f with FFail (_, p, _) -> p | _ -> false) in
        let mark = match o.o_failed with
          | None -> []
          | Some x -> if performed then ["!!"] else ["!" ^ show_effect x] in
        let n = List.length o.o_steps in
        List.iteri (fun i (l, es) ->
          let ws = List.map show_effect es @ (if i = n - 1 then mark else []) in
          print_endline (show_label l ^ " => " ^ (if ws = [] then "-" else String.concat " " ws))) o.o_steps;
        post_ref := o.o_steps;
        let pre = flat o.o_steps in
        let k = List.length pre in
        let kn = nat_of_int k in
        let resume = resume_height (ni h) pre in
        let newdisk = end_disk o.o_flushed kn effs dur_before in
        durable := newdisk; pre_ref := pre;
        let fresh = (dur_before = [] && int_of_string calls = 0) in
        let plain = if fresh then b01 (plain_run e (ni h) ins)
                    else b01 (live_plain e (fst (recover e (ni h) dur_before (ni calls))) ins) in
        (* the theorem's side condition on where a flushing stop happens; a failing SetWALEntry at the head of a call
           is the end of the life that did not get that input *)
        let sok = stop_ok dur_before effs kn ||
                  (match f, o.o_failed with
                   | FFail (_, false, _), Some (Append _) when ins <> [] ->
                       let tr' = snd (lifetime e (ni h) dur_before (ni calls) (drop_last ins)) in
                       List.length (flat tr') = k
                   | _ -> false) in
        (* C13_stop_restart_same_state on the model: the whole life ran, Close flushed, restart at the resume height *)
        let same = if !det_ref && o.o_flushed && k = List.length effs && plain = "1"
                      && replay_quiet e (ni h) dur_before (ni calls)
                      && replay_quiet e resume newdisk N0
                   then b01 (st_sim_b (fst (recover e resume newdisk N0)).d_sm d.d_sm) else "-" in
        print_endline ("= " ^ sn d.d_sm.s_h ^ " " ^ b01 d.d_sm.s_started ^ " " ^ sn d.d_calls ^ " " ^
                       string_of_int k ^ " " ^ sn resume ^ " " ^ plain ^ " - - " ^ b01 sok ^ " " ^ b01 o.o_valid ^ " " ^
                       b01 o.o_flushed ^ " " ^ same);
        print_endline "end"; flush stdout
    | ["disk"] -> print_endline (show_disk !durable); flush stdout
    | ["diskat"; j] ->
        print_endline (show_disk (crash_at (nat_of_int (int_of_string j)) !last_effs !last_dur)); flush stdout
    | "covers" :: lo :: rest ->
        let s = String.concat " " rest in
        (match String.split_on_char ';' s with
         | [_; effs; ents] ->
             let effs = List.map parse_effect (wsplit effs) in
             let ents = List.map parse_entry (wsplit ents) in
             print_endline (String.concat " " [
               b01 (log_covers_visible (ni lo) effs ents);
               b01 (prunes_follow_cb None effs);
               b01 (clean_when_visible false effs)]); flush stdout
         | _ -> failwith "covers")
    | ["verdict"; h0] ->
        print_endline (show_verdict (verdict (ni h0) !pre_ref !post_ref)); flush stdout
    | "check" :: h0 :: rest ->
        let s = String.concat " " rest in
        (match String.split_on_char ';' s with
         | [_; pre; post] ->
             let pre = List.map parse_effect (wsplit pre) in
             let post = if String.trim post = "" then [] else
               List.map parse_step (String.split_on_char '|' post) in
             let effs = flat post in
             print_endline (String.concat " " [
               b01 (no_conflict pre effs);
               b01 (consecutive_from (resume_height (ni h0) pre) (commits_in effs));
               b01 (flush_before_visible effs);
               b01 (logged_first post)]); flush stdout
         | _ -> failwith "check")
    | [] -> ()
    | _ -> failwith ("oracle: bad line: " ^ line))
