(* C14 oracle. One query per line:   <op> <op> ... # <obs>
     ops: a:H:ID  p:H  f  ff:W:R (W = n|p|f, R = 0|1)  fc:new|torn|full|tmp|ren|rottorn|rot  fd:N,N,..  c  cc  o
     obs: ?  (none)  |  err  |  -  (no entries)  |  H.ID,H.ID,...
   Six reply lines: per-op results, model disk, model reopen of the final disk, the two allowed
   results of the abstract history, predicate verdicts on obs, LoadAllEntries of the model's live store. *)
let n = n_of_int
let i = int_of_n

let parse_op (s : string) : op =
  match String.split_on_char ':' s with
  | ["a"; h; id] -> Append (n (int_of_string h), n (int_of_string id))
  | ["p"; h] -> Prune (n (int_of_string h))
  | ["f"] -> Flush FOk
  | ["ff"; w; r] ->
      let w = (match w with "n" -> WNone | "p" -> WPartial | "f" -> WFull | _ -> failwith "wrote") in
      Flush (FFail (w, r = "1"))
  | ["fc"; c] ->
      Flush (FCrash (match c with
        | "new" -> CPNewFile | "torn" -> CPTorn | "full" -> CPFull | "tmp" -> CPWmTmp | "ren" -> CPWmRen
        | "rottorn" -> CPRotTorn | "rot" -> CPRot | _ -> failwith "cpoint"))
  | ["fd"; l] -> Flush (FCrash (CPDel (List.map (fun x -> n (int_of_string x)) (split_on ',' l))))
  | ["fd"] -> Flush (FCrash (CPDel []))
  | ["c"] -> Close false
  | ["cc"] -> Close true
  | ["o"] -> Reopen
  | _ -> failwith ("op: " ^ s)

let show_res = function
  | ROk -> "ok" | RNoop -> "ok" | RRefused -> "ref"
  | RFail l -> if l then "fail1" else "fail0"
  | RCrash l -> if l then "crash1" else "crash0"

let show_ents (l : (n * n) list) : string =
  if l = [] then "-" else String.concat "," (List.map (fun (h, id) -> Printf.sprintf "%d.%d" (i h) (i id)) l)

let parse_obs (s : string) : (n * n) list option option =
  (* None = no observation; Some None = open error *)
  match String.trim s with
  | "?" | "" -> None
  | "err" -> Some None
  | "-" -> Some (Some [])
  | s -> Some (Some (List.map (fun e -> match String.split_on_char '.' e with
            | [h; id] -> (n (int_of_string h), n (int_of_string id)) | _ -> failwith "obs") (split_on ',' s)))

let show_disk (d : disk) : string =
  String.concat " " (List.map (fun f -> Printf.sprintf "f:%d:%d:%d" (i f.fnum) (List.length f.fbat) (if f.ftorn then 1 else 0)) d.dfiles)
  ^ (match d.dwm with None -> " wm:none" | Some w -> Printf.sprintf " wm:%d" (i w))
  ^ (if d.dtmp then " tmp:1" else " tmp:0")

(* incremental protocol: "reset" / "adv <ops>" move a base state (both answer "ok"); every query is
   relative to the base *)
let base_st = ref st0
let base_res : res list ref = ref []   (* reversed *)

let run_from (st : state) (ops : op list) : state * res list =
  List.fold_left (fun (st, rs) o -> let (st', r) = step st o in (st', r :: rs)) (st, []) ops


(* ---------- byte-level framing (Frame.v): extra commands ----------
     crc <hex>                         -> "<pebble masked crc> <crc32c>"           (decimal)
     fset <lognum> <closed 0|1> <hex|-> ...   store the payloads, answer "<length> <hex of encode[_closed]>"
     fcut <n>                          decode the first n bytes of the stored encoding:
                                       "<k> <clean|torn> <valid_len> <prefix 0|1> <spec k> <spec status> <spec valid_len>"
                                       prefix = the k records are exactly the first k stored payloads;
                                       spec = Frame.cut_view (only meaningful for n within the unclosed part)
     fraw <lognum> <hex>               decode arbitrary bytes: "<k> <clean|torn> <valid_len> <hex|-> ..." *)
let byte_tab : n array = Array.init 256 n_of_int
let bytes_of_hex (s : string) : n list =
  if s = "-" then [] else begin
    let len = String.length s / 2 in
    let l = ref [] in
    for k = len - 1 downto 0 do
      l := byte_tab.(hexval s.[2 * k] * 16 + hexval s.[2 * k + 1]) :: !l
    done; !l end
let hex_of_bytes (l : n list) : string =
  if l = [] then "-" else begin
    let b = Buffer.create 1024 in
    List.iter (fun x -> Buffer.add_string b (Printf.sprintf "%02x" (int_of_n x))) l;
    Buffer.contents b end
let take (k : int) (l : 'a list) : 'a list =
  let rec go k l acc = if k <= 0 then List.rev acc else match l with [] -> List.rev acc | x :: r -> go (k - 1) r (x :: acc) in
  go k l []
let show_status = function Clean -> "clean" | Torn -> "torn"
let f_lognum = ref (n_of_int 1)
let f_payloads : n list list ref = ref []
let f_bytes : n list ref = ref []
let frame_cmd (ws : string list) : bool =
  match ws with
  | ["crc"; h] ->
      let b = bytes_of_hex h in
      Printf.printf "%d %d\n%!" (int_of_n (pebble_crc b)) (int_of_n (crc32c b)); true
  | "fset" :: ln :: closed :: ps ->
      f_lognum := n_of_int (int_of_string ln);
      f_payloads := List.map bytes_of_hex ps;
      f_bytes := (if closed = "1" then encode_closed pebble_crc !f_lognum !f_payloads
                  else encode pebble_crc !f_lognum !f_payloads);
      Printf.printf "%d %s\n%!" (List.length !f_bytes) (hex_of_bytes !f_bytes); true
  | ["fcut"; ns] ->
      let nn = int_of_string ns in
      let ((recs, st), good) = decode_full pebble_crc !f_lognum (take nn !f_bytes) in
      let k = List.length recs in
      let pref = (recs = take k !f_payloads) && k <= List.length !f_payloads in
      let ((srecs, sst), sgood) = cut_view !f_payloads (n_of_int nn) in
      Printf.printf "%d %s %d %d %d %s %d\n%!" k (show_status st) (int_of_n good) (if pref then 1 else 0)
        (List.length srecs) (show_status sst) (int_of_n sgood); true
  | ["fraw"; ln; h] ->
      let ((recs, st), good) = decode_full pebble_crc (n_of_int (int_of_string ln)) (bytes_of_hex h) in
      Printf.printf "%d %s %d%s\n%!" (List.length recs) (show_status st) (int_of_n good)
        (String.concat "" (List.map (fun r -> " " ^ hex_of_bytes r) recs)); true
  | _ -> false

let () =
  read_lines (fun line ->
    if frame_cmd (words line) then () else
    match words line with
    | ["reset"] -> base_st := st0; base_res := []; print_endline "ok"; Stdlib.flush stdout
    | "adv" :: ops ->
        let (st, rs) = run_from !base_st (List.map parse_op ops) in
        base_st := st; base_res := rs @ !base_res; print_endline "ok"; Stdlib.flush stdout
    | _ ->
    let full_res, line = (match words line with "sync" :: _ -> true, String.sub line 4 (String.length line - 4) | _ -> false, line) in
    let opss, obss = match String.index_opt line '#' with
      | Some k -> String.sub line 0 k, String.sub line (k + 1) (String.length line - k - 1)
      | None -> line, "?" in
    let ops = List.map parse_op (words opss) in
    let (st, rs0) = run_from !base_st ops in
    let rs = List.rev (if full_res then rs0 @ !base_res else rs0) in
    let ((d, m), s) = st in
    print_endline ("res " ^ String.concat " " (List.map show_res rs));
    print_endline ("disk " ^ show_disk d
      ^ (match m.mcur with None -> " cur:none" | Some c -> Printf.sprintf " cur:%d" (i c))
      ^ Printf.sprintf " next:%d since:%d pend:%d pruned:%d" (i m.mnext) (i m.msince) (List.length m.mpend) (i m.mpruned));
    (* state queries (no observation) do not need the model's reopen *)
    if parse_obs obss = None then print_endline "model ?" else begin
      let mo = reopen_obs d in
      print_endline ("model " ^ (match mo with None -> "err" | Some l -> show_ents l)) end;
    (match parse_obs obss with
     | None -> print_endline "allowed ? | ?"; print_endline "pred ? ?"
     | Some o ->
        let p = recover_ok s.sack s.sinfl o in
        let nr = (match o with None -> true | Some l -> no_revive_ok s.sack l) in
        (* the two allowed results are only needed to describe a failure *)
        if p then print_endline "allowed ? | ?"
        else print_endline ("allowed " ^ show_ents (live s.sack) ^ " | " ^ show_ents (live (s.sack @ s.sinfl)));
        print_endline (Printf.sprintf "pred %d %d" (if p then 1 else 0) (if nr then 1 else 0)));
    print_endline ("live " ^ (if m.mdead || m.mclosed then "dead" else show_ents (load m)));
    Stdlib.flush stdout)
