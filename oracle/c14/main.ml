(* C14 oracle. One query per line:   <op> <op> ... # <obs>
     ops: a:H:ID  p:H  f  ff:W:R (W = n|p|f, R = 0|1)  fc:new|torn|full|tmp|ren|rottorn|rot  fd:N,N,..  c  cc  o
     obs: ?  (none)  |  err  |  -  (no entries)  |  H.ID,H.ID,...
   Six reply lines: per-op results, model disk, model reopen of the final disk, the two allowed
   results of the abstract history, predicate verdicts on obs, LoadAllEntries of the model's live store. *)
let n = n_of_int
let i = int_of_n

let parse_op (s : string) : op =
  match String.split_on_char ':' s with
  | ["a"; h; id] -> Append (n (int_of_string h), n (int_of_string id))
  | ["p"; h] -> Prune (n (int_of_string h))
  | ["f"] -> Flush FOk
  | ["ff"; w; r] ->
      let w = (match w with "n" -> WNone | "p" -> WPartial | "f" -> WFull | _ -> failwith "wrote") in
      Flush (FFail (w, r = "1"))
  | ["fc"; c] ->
      Flush (FCrash (match c with
        | "new" -> CPNewFile | "torn" -> CPTorn | "full" -> CPFull | "tmp" -> CPWmTmp | "ren" -> CPWmRen
        | "rottorn" -> CPRotTorn | "rot" -> CPRot | _ -> failwith "cpoint"))
  | ["fd"; l] -> Flush (FCrash (CPDel (List.map (fun x -> n (int_of_string x)) (split_on ',' l))))
  | ["fd"] -> Flush (FCrash (CPDel []))
  | ["c"] -> Close false
  | ["cc"] -> Close true
  | ["o"] -> Reopen
  | _ -> failwith ("op: " ^ s)

let show_res = function
  | ROk -> "ok" | RNoop -> "ok" | RRefused -> "ref"
  | RFail l -> if l then "fail1" else "fail0"
  | RCrash l -> if l then "crash1" else "crash0"

let show_ents (l : (n * n) list) : string =
  if l = [] then "-" else String.concat "," (List.map (fun (h, id) -> Printf.sprintf "%d.%d" (i h) (i id)) l)

let parse_obs (s : string) : (n * n) list option option =
  (* None = no observation; Some None = open error *)
  match String.trim s with
  | "?" | "" -> None
  | "err" -> Some None
  | "-" -> Some (Some [])
  | s -> Some (Some (List.map (fun e -> match String.split_on_char '.' e with
            | [h; id] -> (n (int_of_string h), n (int_of_string id)) | _ -> failwith "obs") (split_on ',' s)))

let show_disk (d : disk) : string =
  String.concat " " (List.map (fun f -> Printf.sprintf "f:%d:%d:%d" (i f.fnum) (List.length f.fbat) (if f.ftorn then 1 else 0)) d.dfiles)
  ^ (match d.dwm with None -> " wm:none" | Some w -> Printf.sprintf " wm:%d" (i w))
  ^ (if d.dtmp then " tmp:1" else " tmp:0")

(* incremental protocol: "reset" / "adv <ops>" move a base state (both answer "ok"); every query is
   relative to the base *)
let base_st = ref st0
let base_res : res list ref = ref []   (* reversed *)

let run_from (st : state) (ops : op list) : state * res list =
  List.fold_left (fun (st, rs) o -> let (st', r) = step st o in (st', r :: rs)) (st, []) ops

let () =
  read_lines (fun line ->
    match words line with
    | ["reset"] -> base_st := st0; base_res := []; print_endline "ok"; Stdlib.flush stdout
    | "adv" :: ops ->
        let (st, rs) = run_from !base_st (List.map parse_op ops) in
        base_st := st; base_res := rs @ !base_res; print_endline "ok"; Stdlib.flush stdout
    | _ ->
    let full_res, line = (match words line with "sync" :: _ -> true, String.sub line 4 (String.length line - 4) | _ -> false, line) in
    let opss, obss = match String.index_opt line '#' with
      | Some k -> String.sub line 0 k, String.sub line (k + 1) (String.length line - k - 1)
      | None -> line, "?" in
    let ops = List.map parse_op (words opss) in
    let (st, rs0) = run_from !base_st ops in
    let rs = List.rev (if full_res then rs0 @ !base_res else rs0) in
    let ((d, m), s) = st in
    print_endline ("res " ^ String.concat " " (List.map show_res rs));
    print_endline ("disk " ^ show_disk d
      ^ (match m.mcur with None -> " cur:none" | Some c -> Printf.sprintf " cur:%d" (i c))
      ^ Printf.sprintf " next:%d since:%d pend:%d pruned:%d" (i m.mnext) (i m.msince) (List.length m.mpend) (i m.mpruned));
    (* state queries (no observation) do not need the model's reopen *)
    if parse_obs obss = None then print_endline "model ?" else begin
      let mo = reopen_obs d in
      print_endline ("model " ^ (match mo with None -> "err" | Some l -> show_ents l)) end;
    (match parse_obs obss with
     | None -> print_endline "allowed ? | ?"; print_endline "pred ? ?"
     | Some o ->
        let p = recover_ok s.sack s.sinfl o in
        let nr = (match o with None -> true | Some l -> no_revive_ok s.sack l) in
        (* the two allowed results are only needed to describe a failure *)
        if p then print_endline "allowed ? | ?"
        else print_endline ("allowed " ^ show_ents (live s.sack) ^ " | " ^ show_ents (live (s.sack @ s.sinfl)));
        print_endline (Printf.sprintf "pred %d %d" (if p then 1 else 0) (if nr then 1 else 0)));
    print_endline ("live " ^ (if m.mdead || m.mclosed then "dead" else show_ents (load m)));
    Stdlib.flush stdout)
