(* C15 oracle: one case (operation sequence) per input line; prints the contract's outputs, the
   memory model's outputs and the first excluded shape. *)
let byte_of_int (i : int) : ascii = ascii_of_N (n_of_int i)
let int_of_byte (b : ascii) : int = int_of_n (n_of_ascii b)

let bytes_of_hex (s : string) : ascii list =
  if s = "-" then [] else
  List.init (String.length s / 2) (fun i -> byte_of_int (16 * hexval s.[2*i] + hexval s.[2*i+1]))
let hex_of_bytes (l : ascii list) : string =
  if l = [] then "-" else String.concat "" (List.map (fun b -> Printf.sprintf "%02x" (int_of_byte b)) l)

let parse_wop (fs : string list) : wop = match fs with
  | ["put"; k; v] -> WPut (bytes_of_hex k, bytes_of_hex v)
  | ["del"; k] -> WDel (bytes_of_hex k)
  | ["delrange"; a; b] -> WDelRange (bytes_of_hex a, bytes_of_hex b)
  | _ -> failwith "wop"

let parse_src (s : string) : src =
  if s = "db" then SDb
  else match String.split_on_char ':' s with
    | ["b"; h] -> SBatch (nat_of_int (int_of_string h))
    | ["s"; h] -> SSnap (nat_of_int (int_of_string h))
    | _ -> failwith "src"

let h s = nat_of_int (int_of_string s)

let parse_op (s : string) : op = match words s with
  | ["put"; k; v] -> Put (bytes_of_hex k, bytes_of_hex v)
  | ["del"; k] -> Del (bytes_of_hex k)
  | ["delrange"; a; b] -> DelRange (bytes_of_hex a, bytes_of_hex b)
  | ["get"; k] -> Get (bytes_of_hex k)
  | ["has"; k] -> Has (bytes_of_hex k)
  | ["newbatch"; ix] -> NewBatch (ix = "1")
  | "bw" :: hh :: rest -> BW (h hh, parse_wop rest)
  | ["bget"; hh; k] -> BGet (h hh, bytes_of_hex k)
  | ["bhas"; hh; k] -> BHas (h hh, bytes_of_hex k)
  | ["bsize"; hh] -> BSize (h hh)
  | ["bwrite"; hh] -> BWrite (h hh)
  | ["bclose"; hh] -> BClose (h hh)
  | ["newsnap"] -> NewSnap
  | ["sget"; hh; k] -> SGet (h hh, bytes_of_hex k)
  | ["shas"; hh; k] -> SHas (h hh, bytes_of_hex k)
  | ["sclose"; hh] -> SClose (h hh)
  | ["newiter"; s; p; ub] -> NewIter (parse_src s, bytes_of_hex p, ub = "1")
  | ["first"; hh] -> IMove (h hh, MFirst)
  | ["next"; hh] -> IMove (h hh, MNext)
  | ["prev"; hh] -> IMove (h hh, MPrev)
  | ["seek"; hh; k] -> IMove (h hh, MSeek (bytes_of_hex k))
  | ["iclose"; hh] -> IClose (h hh)
  | "helper" :: ix :: fail :: rd :: ws ->
      let ws = List.map (fun w -> parse_wop (String.split_on_char ':' w)) ws in
      Helper (ix = "1", ws, (if rd = "_" then None else Some (bytes_of_hex rd)), fail = "1")
  | _ -> failwith ("op: " ^ s)

let show_out (o : out) : string = match o with
  | OOk -> "ok" | OErr -> "err"
  | OBool b -> if b then "t" else "f"
  | OGet None -> "none"
  | OGet (Some v) -> "v:" ^ hex_of_bytes v
  | OIter (r, None) -> "it:" ^ (if r then "t" else "f") ^ ":none"
  | OIter (r, Some (k, v)) -> "it:" ^ (if r then "t" else "f") ^ ":" ^ hex_of_bytes k ^ ":" ^ hex_of_bytes v
  | OSize n -> "sz:" ^ string_of_int (int_of_n n)
  | OHandle x -> "h:" ^ string_of_int (int_of_nat x)

let show_shape = function
  | None -> "none"
  | Some ShNonIndexedRead -> "non-indexed-read"
  | Some ShBadHandle -> "bad-handle"

let () =
  read_lines (fun line ->
    match words line with
    | "ub" :: [p] ->
        (match upper_bound (bytes_of_hex p) with
         | None -> print_endline "ub nil"
         | Some u -> print_endline ("ub " ^ hex_of_bytes u));
        flush stdout
    | _ ->
      let ops = List.map parse_op (split_on ';' line) in
      print_endline ("spec " ^ String.concat " " (List.map show_out (run_spec s_init ops)));
      print_endline ("mem " ^ String.concat " " (List.map show_out (run_mem m_init ops)));
      let shs = List.sort_uniq compare (List.map (fun s -> show_shape (Some s)) (all_shapes s_init ops)) in
      print_endline ("shape " ^ (if shs = [] then "none" else String.concat "+" shs));
      flush stdout)
