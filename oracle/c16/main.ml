(* C16 oracle: line protocol around the extracted pruner model. Numbers are decimal (< 2^62) except
   where noted; "-" = absent. One reply line per request unless stated. *)
let n s = n_of_int (int_of_string s)
let ni x = string_of_int (int_of_n x)
let opt s = if s = "-" then None else Some (n s)
let b s = (s = "1")
let bits l = String.concat "" (List.map (fun x -> if x then "1" else "0") l)

let show_dec (st, d) =
  (match d with Skip -> "skip" | Prune k -> "prune " ^ ni k) ^ " " ^ ni st.pending ^ " " ^ ni st.sampled

let fam_name = function
  | Hdr -> "hdr" | H2n -> "h2n" | Txs -> "txs" | Txl -> "txl" | L1l -> "l1l" | Su -> "su" | Cm -> "cm"
  | Hist -> "hist" | HistNew -> "histnew" | Bloom -> "bloom"
let acc_name = function
  | AHeaderByNumber -> "HeaderByNumber" | AHeaderHashByNumber -> "HeaderHashByNumber"
  | ATxCountByNumber -> "TxCountByNumber" | ABlockByNumber -> "BlockByNumber"
  | ANumberByHash -> "NumberByHash" | AHeaderByHash -> "HeaderByHash" | ABlockByHash -> "BlockByHash"
  | ATxsByNumber -> "TxsByNumber" | ATxsRcptsByNumber -> "TxsRcptsByNumber"
  | ATxHashesByNumber -> "TxHashesByNumber" | ATxByNumIdx -> "TxByNumIdx" | AExecStatus -> "ExecStatus"
  | ATxRcptByNumIdx -> "TxRcptByNumIdx" | ANumIdxByTxHash -> "NumIdxByTxHash" | ATxByHash -> "TxByHash"
  | AReceipt -> "Receipt" | AStateUpdateByNumber -> "StateUpdateByNumber"
  | AStateUpdateByHash -> "StateUpdateByHash" | AL1HandlerTxnHash -> "L1HandlerTxnHash"
  | ACommitments -> "Commitments"

(* the session store *)
let cur : (fam -> n -> bool) ref = ref (full_store N0)
let saved : (string, fam -> n -> bool) Hashtbl.t = Hashtbl.create 64

(* lookups of a store built by many deletes cost one closure per delete: cache them *)
let memo (f : fam -> n -> bool) : fam -> n -> bool =
  let t = Hashtbl.create 4096 in
  fun fa i -> let key = (fa, int_of_n i) in
    match Hashtbl.find_opt t key with Some v -> v | None -> let v = f fa i in Hashtbl.add t key v; v
(* indices printed by dump / ans: None = all of 0..head *)
let idx : int list option ref = ref None
let indices head = match !idx with Some l -> List.filter (fun i -> i <= head) l | None -> List.init (head + 1) (fun i -> i)

let parse_rot (s : string) : n -> bool =
  if s = "all" then (fun _ -> true) else if s = "none" then (fun _ -> false)
  else let l = List.map int_of_string (split_on ',' s) in (fun x -> List.mem (int_of_n x) l)

let parse_logs (s : string) : (n * n) list =
  if s = "-" then [] else
  List.map (fun p -> match String.split_on_char ':' p with
    | [bk; v] -> (n bk, n v) | _ -> failwith "log") (split_on ',' s)

let dump head =
  let is = indices (int_of_n head) in
  List.iter (fun f ->
    if f <> Bloom then print_endline (fam_name f ^ " " ^ bits (List.map (fun i -> !cur f (n_of_int i)) is))
    else begin
      let ws = ref [] in
      let w = ref 0 in
      while !w <= int_of_n head do
        if !cur Bloom (n_of_int !w) then ws := string_of_int !w :: !ws;
        w := !w + 8192
      done;
      print_endline ("bloom " ^ (if !ws = [] then "-" else String.concat "," (List.rev !ws)))
    end) all_fams

let () =
  read_lines (fun line ->
    (match words line with
    | ["nb"; ret; ev; ma; pend; samp; l1; block; within] ->
        let c = { retained = n ret; every = n ev; min_age_on = b ma } in
        print_endline (show_dec (on_new_block c { pending = n pend; sampled = n samp } (opt l1) (n block) (b within)))
    | ["nl"; ret; ev; ma; pend; samp; l1; height] ->
        let c = { retained = n ret; every = n ev; min_age_on = b ma } in
        print_endline (show_dec (on_new_l1_head c { pending = n pend; sampled = n samp } (n l1) (opt height)))
    | "fo" :: lower :: upper :: cutoff :: ts ->
        let arr = Array.of_list (List.map n ts) in
        let f x = let i = int_of_n x in if i < Array.length arr then arr.(i) else N0 in
        (match find_oldest f (n lower) (n upper) (n cutoff) with
         | None -> print_endline "none" | Some r -> print_endline ("some " ^ ni r))
    | ["floor"; keep; st] ->
        let st' = prune_floor (n keep) (n st) in
        print_endline (ni st' ^ " " ^ (match floor_of st' with None -> "-" | Some f -> ni f))
    | ["seed"; oldest; st] ->
        let st' = seed_floor (opt oldest) (n st) in
        print_endline (ni st' ^ " " ^ (match floor_of st' with None -> "-" | Some f -> ni f))
    | ["bound"; l1; head; ret; k] -> print_endline (if bound_ok (n l1) (n head) (n ret) (n k) then "1" else "0")
    | ["minage"; k; fy] -> print_endline (if min_age_ok (n k) (n fy) then "1" else "0")
    | ["served"; st; height; x] -> print_endline (if state_served (n st) (n height) (n x) then "1" else "0")
    (* session store *)
    | ["save"; id] -> Hashtbl.replace saved id !cur; print_endline "ok"
    | ["load"; id] -> cur := Hashtbl.find saved id; print_endline "ok"
    | ["init"; head] -> cur := memo (full_store (n head)); print_endline "ok"
    | ["idx"; l] -> idx := (if l = "all" then None else Some (List.map int_of_string (split_on ',' l))); print_endline "ok"
    | ["ext"; h] ->
        cur := set_block !cur (n h) true;
        let hi = int_of_string h in
        if (hi + 1) mod 8192 = 0 then cur := set_window !cur (n_of_int (hi + 1 - 8192)) true;
        print_endline "ok"
    | ["rev"; h] ->
        (* RevertHead of block h; reverting the last block of a window re-enters that window: the running
           filter drops its persisted copy (core/running_event_filter.go onReorg) *)
        cur := set_block !cur (n h) false;
        let hi = int_of_string h in
        if (hi + 1) mod 8192 = 0 then cur := set_window !cur (n_of_int (hi + 1 - 8192)) false;
        print_endline "ok"
    | ["plan"; head; e; k; rot; m] ->
        (* reply: "<batches in plan> <oldestKept if run to the end> <oldest before>" ; applies the first m *)
        let pl = prune_plan !cur (n head) (n e) (n k) (parse_rot rot) in
        let ok = plan_oldest_kept !cur (n head) (n e) (n k) in
        let ob = (match oldest !cur (n head) with None -> "-" | Some o -> ni o) in
        cur := memo (interrupted !cur pl (nat_of_int (int_of_string m)));
        print_endline (string_of_int (List.length pl) ^ " " ^ ni ok ^ " " ^ ob)
    | ["oldest"; head] ->
        print_endline (match oldest !cur (n head) with None -> "-" | Some o -> ni o)
    | ["dump"; head] -> dump (n head)       (* 10 lines *)
    | ["ans"; head] ->                      (* 20 lines *)
        let is = indices (int_of_n (n head)) in
        List.iter (fun a ->
          print_endline (acc_name a ^ " " ^
            bits (List.map (fun i -> answers !cur a (n_of_int i)) is))) all_accs
    | ["canrev"; h] -> print_endline (if can_revert !cur (n h) then "1" else "0")
    | ["ro"; x; hv; lg] -> print_endline (ni (read_old (parse_logs lg) (!cur Hist) (n hv) (n x)))
    | ["rn"; x; lg] -> print_endline (ni (read_new (parse_logs lg) (!cur HistNew) (n x) N0))
    | ["lu"; newstyle; x; lg] ->
        print_endline (ni (last_upd (parse_logs lg) (!cur (if b newstyle then HistNew else Hist)) (n x) N0))
    | _ -> print_endline ("error: " ^ line));
    flush stdout)
