(* C16 oracle: line protocol around the extracted pruner model. Numbers are decimal (< 2^62) except
   where noted; "-" = absent. One reply line per request unless stated. *)
let n s = n_of_int (int_of_string s)
let ni x = string_of_int (int_of_n x)
let opt s = if s = "-" then None else Some (n s)
let b s = (s = "1")
let bits l = String.concat "" (List.map (fun x -> if x then "1" else "0") l)

let show_dec (st, d) =
  (match d with Skip -> "skip" | Prune k -> "prune " ^ ni k) ^ " " ^ ni st.pending ^ " " ^ ni st.sampled

let fam_name = function
  | Hdr -> "hdr" | H2n -> "h2n" | Txs -> "txs" | Txl -> "txl" | L1l -> "l1l" | Su -> "su" | Cm -> "cm"
  | Hist -> "hist" | HistNew -> "histnew" | Bloom -> "bloom"
let acc_name = function
  | AHeaderByNumber -> "HeaderByNumber" | AHeaderHashByNumber -> "HeaderHashByNumber"
  | ATxCountByNumber -> "TxCountByNumber" | ABlockByNumber -> "BlockByNumber"
  | ANumberByHash -> "NumberByHash" | AHeaderByHash -> "HeaderByHash" | ABlockByHash -> "BlockByHash"
  | ATxsByNumber -> "TxsByNumber" | ATxsRcptsByNumber -> "TxsRcptsByNumber"
  | ATxHashesByNumber -> "TxHashesByNumber" | ATxByNumIdx -> "TxByNumIdx" | AExecStatus -> "ExecStatus"
  | ATxRcptByNumIdx -> "TxRcptByNumIdx" | ANumIdxByTxHash -> "NumIdxByTxHash" | ATxByHash -> "TxByHash"
  | AReceipt -> "Receipt" | AStateUpdateByNumber -> "StateUpdateByNumber"
  | AStateUpdateByHash -> "StateUpdateByHash" | AL1HandlerTxnHash -> "L1HandlerTxnHash"
  | ACommitments -> "Commitments"

(* the session store *)
let cur : (fam -> n -> bool) ref = ref (full_store N0)
let saved : (string, fam -> n -> bool) Hashtbl.t = Hashtbl.create 64

(* lookups of a store built by many deletes cost one closure per delete: cache them *)
let memo (f : fam -> n -> bool) : fam -> n -> bool =
  let t = Hashtbl.create 4096 in
  fun fa i -> let key = (fa, int_of_n i) in
    match Hashtbl.find_opt t key with Some v -> v | None -> let v = f fa i in Hashtbl.add t key v; v
(* indices printed by dump / ans: None = all of 0..head *)
let idx : int list option ref = ref None
let indices head = match !idx with Some l -> List.filter (fun i -> i <= head) l | None -> List.init (head + 1) (fun i -> i)

let parse_rot (s : string) : n -> bool =
  if s = "all" then (fun _ -> true) else if s = "none" then (fun _ -> false)
  else let l = List.map int_of_string (split_on ',' s) in (fun x -> List.mem (int_of_n x) l)

let parse_logs (s : string) : (n * n) list =
  if s = "-" then [] else
  List.map (fun p -> match String.split_on_char ':' p with
    | [bk; v] -> (n bk, n v) | _ -> failwith "log") (split_on ',' s)

let dump head =
  let is = indices (int_of_n head) in
  List.iter (fun f ->
    if f <> Bloom then print_endline (fam_name f ^ " " ^ bits (List.map (fun i -> !cur f (n_of_int i)) is))
    else begin
      let ws = ref [] in
      let w = ref 0 in
      while !w <= int_of_n head do
        if !cur Bloom (n_of_int !w) then ws := string_of_int !w :: !ws;
        w := !w + 8192
      done;
      print_endline ("bloom " ^ (if !ws = [] then "-" else String.concat "," (List.rev !ws)))
    end) all_fams


(* ---------- the history-pruner migration (C16/Migrate.v): session state ---------- *)
let m_ch : chain ref = ref { c_head = N0; c_ts = (fun _ -> N0); c_dlen = (fun _ -> N0) }
let m_u : mstore ref = ref (full_mstore N0 (fun _ _ -> None))   (* the database before the migration *)
let m_cur : mstore ref = ref !m_u
let m_pre : mstore ref = ref !m_u                                (* before the last `mig run` *)
let m_plan : mop list list ref = ref []                          (* batches of the last `mig run` *)

let memo2 (f : n -> n -> n option) : n -> n -> n option =
  let t = Hashtbl.create 1024 in
  fun i j -> let key = (int_of_n i, int_of_n j) in
    match Hashtbl.find_opt t key with Some v -> v | None -> let v = f i j in Hashtbl.add t key v; v
let mmemo (m : mstore) : mstore = { blk = memo m.blk; hlog = memo2 m.hlog; scr = memo2 m.scr; mark = m.mark }

let parse_nlist s = if s = "-" then [||] else Array.of_list (List.map n (split_on ',' s))
let arr_fun a = fun x -> let i = int_of_n x in if i < Array.length a then a.(i) else N0
let parse_blockbatches s =
  if s = "-" then [] else
  List.map (fun b -> if b = "e" then [] else List.map n (split_on ',' b)) (String.split_on_char ';' s)
let parse_blob s = if s = "-" then None else
  (match String.split_on_char ':' s with [a; b; c] -> Some ((n a, n b), n c) | _ -> failwith "blob")
let parse_stop s =
  match String.split_on_char ':' s with
  | ["none"] -> SNone | ["cs"; c] -> SCancelStage (n c) | ["cr"; c] -> SCancelRestore (n c)
  | ["f1"] -> SFailSetup1 | ["fs"] -> SFailStage | ["f2"] -> SFailSetup2 | ["fr"] -> SFailRestore
  | ["fw"] -> SFailWipe | _ -> failwith "stop"
let show_res = function
  | RDone -> "done" | RErr -> "err" | RCrash -> "crash"
  | RBlob (a, b, c) -> "blob:" ^ ni a ^ ":" ^ ni b ^ ":" ^ ni c
let batch_summary (b : mop list) : string =
  let toks = List.filter_map (fun o -> match summary_tag o with
    | (t, x) -> (match int_of_n t with
        | 1 -> Some ("P" ^ ni x) | 2 -> Some "WL" | 3 -> Some "WH" | 4 -> Some "WS"
        | 5 -> Some ("seed" ^ ni x) | 6 -> Some ("S" ^ ni x) | 7 -> Some ("R" ^ ni x) | _ -> None)) b in
  let toks = List.sort_uniq compare toks in
  if toks = [] then "e" else String.concat "," toks
let mig_dump (m : mstore) =
  let head = int_of_n !m_ch.c_head in
  let is = List.init (head + 1) (fun i -> i) in
  List.iter (fun f ->
    print_endline (fam_name f ^ " " ^ bits (List.map (fun i -> m.blk f (n_of_int i)) is)))
    [Hdr; H2n; Txs; Txl; L1l; Su; Cm];
  let entries (g : n -> n -> n option) =
    String.concat ";" (List.map (fun i ->
      let d = int_of_n (!m_ch.c_dlen (n_of_int i)) in
      String.concat "." (List.init d (fun j ->
        match g (n_of_int i) (n_of_int j) with None -> "-" | Some v -> hex_of_n v))) is) in
  print_endline ("hist " ^ entries m.hlog);
  print_endline ("scr " ^ entries m.scr);
  print_endline ("mark " ^ (if m.mark then "1" else "0"))

let () =
  read_lines (fun line ->
    (match words line with
    | ["nb"; ret; ev; ma; pend; samp; l1; block; within] ->
        let c = { retained = n ret; every = n ev; min_age_on = b ma } in
        print_endline (show_dec (on_new_block c { pending = n pend; sampled = n samp } (opt l1) (n block) (b within)))
    | ["nl"; ret; ev; ma; pend; samp; l1; height] ->
        let c = { retained = n ret; every = n ev; min_age_on = b ma } in
        print_endline (show_dec (on_new_l1_head c { pending = n pend; sampled = n samp } (n l1) (opt height)))
    | "fo" :: lower :: upper :: cutoff :: ts ->
        let arr = Array.of_list (List.map n ts) in
        let f x = let i = int_of_n x in if i < Array.length arr then arr.(i) else N0 in
        (match find_oldest f (n lower) (n upper) (n cutoff) with
         | None -> print_endline "none" | Some r -> print_endline ("some " ^ ni r))
    | ["floor"; keep; st] ->
        let st' = prune_floor (n keep) (n st) in
        print_endline (ni st' ^ " " ^ (match floor_of st' with None -> "-" | Some f -> ni f))
    | ["seed"; oldest; st] ->
        let st' = seed_floor (opt oldest) (n st) in
        print_endline (ni st' ^ " " ^ (match floor_of st' with None -> "-" | Some f -> ni f))
    | ["bound"; l1; head; ret; k] -> print_endline (if bound_ok (n l1) (n head) (n ret) (n k) then "1" else "0")
    | ["minage"; k; fy] -> print_endline (if min_age_ok (n k) (n fy) then "1" else "0")
    | ["served"; st; height; x] -> print_endline (if state_served (n st) (n height) (n x) then "1" else "0")
    (* session store *)
    | ["save"; id] -> Hashtbl.replace saved id !cur; print_endline "ok"
    | ["load"; id] -> cur := Hashtbl.find saved id; print_endline "ok"
    | ["init"; head] -> cur := memo (full_store (n head)); print_endline "ok"
    | ["idx"; l] -> idx := (if l = "all" then None else Some (List.map int_of_string (split_on ',' l))); print_endline "ok"
    | ["ext"; h] ->
        cur := set_block !cur (n h) true;
        let hi = int_of_string h in
        if (hi + 1) mod 8192 = 0 then cur := set_window !cur (n_of_int (hi + 1 - 8192)) true;
        print_endline "ok"
    | ["rev"; h] ->
        (* RevertHead of block h; reverting the last block of a window re-enters that window: the running
           filter drops its persisted copy (core/running_event_filter.go onReorg) *)
        cur := set_block !cur (n h) false;
        let hi = int_of_string h in
        if (hi + 1) mod 8192 = 0 then cur := set_window !cur (n_of_int (hi + 1 - 8192)) false;
        print_endline "ok"
    | ["plan"; head; e; k; rot; m] ->
        (* reply: "<batches in plan> <oldestKept if run to the end> <oldest before>" ; applies the first m *)
        let pl = prune_plan !cur (n head) (n e) (n k) (parse_rot rot) in
        let ok = plan_oldest_kept !cur (n head) (n e) (n k) in
        let ob = (match oldest !cur (n head) with None -> "-" | Some o -> ni o) in
        cur := memo (interrupted !cur pl (nat_of_int (int_of_string m)));
        print_endline (string_of_int (List.length pl) ^ " " ^ ni ok ^ " " ^ ob)
    | ["oldest"; head] ->
        print_endline (match oldest !cur (n head) with None -> "-" | Some o -> ni o)
    | ["dump"; head] -> dump (n head)       (* 10 lines *)
    | ["ans"; head] ->                      (* 20 lines *)
        let is = indices (int_of_n (n head)) in
        List.iter (fun a ->
          print_endline (acc_name a ^ " " ^
            bits (List.map (fun i -> answers !cur a (n_of_int i)) is))) all_accs
    | ["canrev"; h] -> print_endline (if can_revert !cur (n h) then "1" else "0")
    | ["ro"; x; hv; lg] -> print_endline (ni (read_old (parse_logs lg) (!cur Hist) (n hv) (n x)))
    | ["rn"; x; lg] -> print_endline (ni (read_new (parse_logs lg) (!cur HistNew) (n x) N0))
    | ["lu"; newstyle; x; lg] ->
        print_endline (ni (last_upd (parse_logs lg) (!cur (if b newstyle then HistNew else Hist)) (n x) N0))
    (* ---- history-pruner migration ---- *)
    | ["mig"; "init"; head; dlens; tss; logs] ->
        (* dlens / tss: comma lists over blocks 0..head; logs: i:j:hexvalue,... or - *)
        let dl = parse_nlist dlens and ts = parse_nlist tss in
        let tbl = Hashtbl.create 256 in
        if logs <> "-" then List.iter (fun e -> match String.split_on_char ':' e with
          | [i; j; v] -> Hashtbl.replace tbl (int_of_string i, int_of_string j) (n_of_hex v)
          | _ -> failwith "log") (split_on ',' logs);
        m_ch := { c_head = n head; c_ts = arr_fun ts; c_dlen = arr_fun dl };
        m_u := full_mstore (n head) (fun i j -> Hashtbl.find_opt tbl (int_of_n i, int_of_n j));
        m_cur := !m_u; m_pre := !m_u; m_plan := [];
        print_endline "ok"
    | ["mig"; "run"; l1; ret; cutoff; bl; stage; restore; stop; crash] ->
        (* reply line 1: <result> floor=<fl|-> ok=<sched_ok> exact=<no block twice> safe=1 (no crash point is excluded any more) n=<batches>
           line 2: the batches of the call (summaries, | separated) *)
        let g = { g_retained = n ret; g_cutoff = opt cutoff } in
        let pb = parse_blob bl in
        let sc = { s_stage = parse_blockbatches stage; s_restore = parse_blockbatches restore;
                   s_stop = parse_stop stop;
                   s_crash = (if crash = "-" then None else Some (nat_of_int (int_of_string crash))) } in
        let fl = run_floor !m_ch (opt l1) g pb !m_cur in
        (* the call's batches are applied to the database with the restage marker already written *)
        let pre = (match pb, fl with
          | Some ((sp, rp), f), Some _ -> run_pre !m_ch !m_cur sp rp f
          | _ -> !m_cur) in
        let plan, ok, safe = (match fl with
          | None -> [], true, true
          | Some f ->
              let ((sp, rp), _) = start_of !m_ch !m_cur pb f in   (* incl. the restage decision *)
              fst (mig_plan !m_ch pre sp rp f sc), sched_ok !m_ch sp rp f sc, true) in
        let (m', r) = mig_run !m_ch (opt l1) g pb !m_cur sc in
        m_pre := pre; m_plan := plan; m_cur := mmemo m';
        print_endline (show_res r ^ " floor=" ^ (match fl with None -> "-" | Some f -> ni f)
          ^ " ok=" ^ (if ok then "1" else "0") ^ " exact=" ^ (if sched_exact sc then "1" else "0")
          ^ " safe=" ^ (if safe then "1" else "0") ^ " n=" ^ string_of_int (List.length plan));
        print_endline ("batches " ^ String.concat "|" (List.map batch_summary plan))
    | ["mig"; "dump"; k] ->      (* 10 lines: the database after k batches of the last call, or "cur" *)
        if k = "cur" then mig_dump !m_cur
        else mig_dump (mmemo (mapply_batches !m_ch !m_pre (firstn (nat_of_int (int_of_string k)) !m_plan)))
    | ["mig"; "final"; fl] ->    (* 10 lines: what the theorems say the completed migration leaves *)
        mig_dump (mig_final !m_u (n fl))
    | ["mig"; "floor"; l1; head; ret; fl; fy] ->
        print_endline (if mig_floor_ok (n l1) (n head) (n ret) (n fl) (opt fy) then "1" else "0")
    | ["mig"; "unguarded"; fl] -> print_endline (hex_of_n (setup2_seed_unguarded (n fl)))
    | _ -> print_endline ("error: " ^ line));
    flush stdout)
