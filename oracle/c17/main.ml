(* C17 oracle. One case per line:   H0 | step ; step ; ...
     H0   : "-" or l1:l2:id
     step : <input> @ <observed head of the implementation after the step>
            U l1 l2 id | R l1 l2 id | T fin | S | C latest fin1 chunk fail fin2 ev,ev,...   (fail, evs: "-" = none)
     obs  : "-" (no head stored), l2:id, or "?" (not observed: predicates skipped)
   Reply: one line, one record per step joined by ";":
     mh=<model head> mb=<model buffer, sorted> env=<0|1> commit=<fin|-> spec=<na|ok|bad> never=<ok|bad> mono=<ok|bad>
   spec/never/mono are the extracted predicates evaluated on the implementation's observation. *)
let nn s = n_of_int (int_of_string s)
let sn x = string_of_int (int_of_n x)

let parse_ev (s : string) : upd = match String.split_on_char ':' s with
  | [a; b; c] -> { u_l1 = nn a; u_l2 = nn b; u_id = nn c }
  | _ -> failwith ("event: " ^ s)
let parse_h0 s = if s = "-" then None else Some (parse_ev s)
(* "?" = not observed at this step (Run-loop mode): predicates are skipped *)
let parse_obs s : (n * n) option option = if s = "?" then None else if s = "-" then Some None else
  match String.split_on_char ':' s with [a; b] -> Some (Some (nn a, nn b)) | _ -> failwith ("obs: " ^ s)

let parse_input (s : string) : input = match words s with
  | ["U"; a; b; c] -> Upd { u_l1 = nn a; u_l2 = nn b; u_id = nn c }
  | ["R"; a; b; c] -> Rem { u_l1 = nn a; u_l2 = nn b; u_id = nn c }
  | ["T"; f] -> Tick (nn f)
  | ["S"] -> SubErr
  | ["C"; latest; fin1; chunk; fail; fin2; evs] ->
      let canon = if evs = "-" then [] else List.map parse_ev (String.split_on_char ',' evs) in
      let fail = if fail = "-" then None else Some (nat_of_int (int_of_string fail)) in
      CatchUp (canon, nn latest, nn fin1, nn chunk, fail, nn fin2)
  | _ -> failwith ("input: " ^ s)

(* adapter lines:  G sev ; sev ; ...   sev = L l1 l2 id removed(0|1) | E | P <input>
   reply: per sev what the forwarding model hands to the client ("-" = nothing), joined by ";" *)
let show_ev (e : upd) = Printf.sprintf "%s %s %s" (sn e.u_l1) (sn e.u_l2) (sn e.u_id)
let show_input (i : input) : string = match i with
  | Upd e -> "U " ^ show_ev e
  | Rem e -> "R " ^ show_ev e
  | Tick f -> "T " ^ sn f
  | SubErr -> "S"
  | CatchUp _ -> "C"
let parse_sev (s : string) : sev = match words s with
  | ["L"; a; b; c; r] -> SLog { g_l1 = nn a; g_l2 = nn b; g_id = nn c; g_removed = (r = "1") }
  | ["E"] -> SErr
  | "P" :: rest -> SPoll (parse_input (String.concat " " rest))
  | _ -> failwith ("sev: " ^ s)

let show_obs = function None -> "-" | Some (a, b) -> sn a ^ ":" ^ sn b
let show_buf (b : (n * upd) list) : string =
  if b = [] then "-" else
  let l = List.sort compare (List.map (fun (k, v) -> (int_of_n k, int_of_n v.u_l2, int_of_n v.u_id)) b) in
  String.concat "," (List.map (fun (k, a, c) -> Printf.sprintf "%d:%d:%d" k a c) l)
let okbad b = if b then "ok" else "bad"

let () =
  read_lines (fun line ->
    if String.length line > 1 && line.[0] = 'G' && line.[1] = ' ' then begin
      let sevs = List.map parse_sev (split_on ';' (String.sub line 2 (String.length line - 2))) in
      let out = List.map (fun sv ->
        match sys_trace fw_real [sv] with
        | [] -> "-"
        | l -> String.concat "," (List.map show_input l)) sevs in
      print_endline (String.concat ";" out); flush stdout
    end else
    match String.split_on_char '|' line with
    | [h0s; rest] ->
        let h0 = parse_h0 (String.trim h0s) in
        let steps = List.map (fun s ->
          match String.split_on_char '@' s with
          | [i; o] -> (parse_input i, parse_obs (String.trim o))
          | _ -> failwith ("step: " ^ s)) (split_on ';' rest) in
        let st = ref (init h0) and first = ref true and env = ref true and prev = ref (obs_of h0) in
        let out = List.map (fun (i, o) ->
          env := !env && env_step all_on h0 !first !st i;
          let cf = commit_fin !st i in
          let st' = step !st i in
          let spec = match cf, o with
            | Some fin, Some o -> okbad (obs_spec_ok h0 st'.s_live fin o)
            | _, _ -> "na" in
          let never = match o with Some o -> okbad (obs_never_ok h0 st'.s_live st'.s_fmax o) | None -> "ok" in
          let mono = match o with Some o -> okbad (obs_mono_ok !prev o) | None -> "ok" in
          let r = Printf.sprintf "mh=%s mb=%s env=%d commit=%s spec=%s never=%s mono=%s"
            (show_obs (obs_of st'.s_head)) (show_buf st'.s_buf) (if !env then 1 else 0)
            (match cf with None -> "-" | Some f -> sn f) spec never mono in
          st := st'; first := false; (match o with Some o -> prev := o | None -> ()); r) steps in
        print_endline (String.concat ";" out); flush stdout
    | _ -> failwith "case line")
