(* C18 oracle. One request per line, one reply line.
   R <migs> ; <fuel> <enabled hex> <cancel|-> <ioerror|-> ; <cur hex> <last hex> <inter|-> <db>
       (cancel / ioerror: after that many writes the context is cancelled / the store fails once)
       migs  = m|o : total : mode(s|n) : failat : yieldat   joined by ','
       inter = i:t joined by ','      db = progress per migration joined by ','
     -> <result> | <cur> <last> <inter> <db> | <log> | <trace states joined by '~'> | <aad t/f>
   BC <tok -|r> <btdb>        -> some <btdb> | none          (bt_complete (len+3))
   BI <btdb>                  -> <wf_old> <no_empty_range> <get_first>
   BP <refbtdb> <btdb>        -> t|f                          (preserved (map content ref) db)
   AD <events chronological, ','-separated or ->  -> t|f       (applied_after_done)
   SD <checkpoint> <sdb>      -> some <sdb> | none            (sdl_migrate)   sdb: blocks ','-separated,
                                                              '-' = pruned, len:sdl otherwise; '_' = no height
   SA <checkpoint> <sdb> <end d|c<n>|e|x> <batches>          one observed Migrate call of statedifflength
       batches: ';'-separated, each '.'-separated block numbers, 'e' = empty batch, '-' = no batch at all
     -> <producible t/f> | <sdb after each batch joined by '~' or -> | <final sdb> | <ck> <applied t/f>
        | <sdl_ck_ok final ck> <sdl_done final> <sdl_wf start> <uninterrupted-from-final completes to sdl_complete t/f>
          <step-level model (sdl_step under the environment proposing the observed batches) reaches the same database and token t/f/->
   HA <hsdb> <end d|i|e|x> <wipes> <batches>                 one observed Migrate call of headstate
       hsdb: rows ','-separated addr/class/nonce/height/contract, hex, '-' = absent, contract n.c.h; '_' = no row
       batches: as above with hex addresses
     -> <producible t/f> | <hsdb after each write joined by '~' or -> | <final hsdb> | <tok t/f> <applied t/f>
        | <hs_ok start> <hs_wiped final> <hs_complete start> <step-level model (hs_step) reaches the same database and token t/f/->
   HV <hsdb0> <hsdb>          -> <hs_consistent hsdb0> <new_view hsdb = legacy_view hsdb0> <hs_wiped hsdb> *)
let ios = int_of_string
let soi = string_of_int
let split c s = if s = "-" || s = "" then [] else String.split_on_char c s
let tf b = if b then "t" else "f"

(* ---------- runner with scripted stub migrations ---------- *)
let mk_stub idx opt total mode failat yieldat : (n list, n) migration =
  { mig_optional = opt;
    mig_step = (fun db tok c ->
      let p = match tok with Some t -> int_of_n t | None -> 0 in
      if c then (db, (if mode = "n" then NilWithCtxErr else Suspended (n_of_int p)))
      else if failat = p + 1 then (db, Failed)
      else
        let db' = List.mapi (fun j v -> if j = idx then n_of_int (Stdlib.max (int_of_n v) (p + 1)) else v) db in
        if p + 1 >= total then (db', Done)
        else if yieldat = p + 1 then (db', Yield (n_of_int (p + 1)))
        else (db', Suspended (n_of_int (p + 1)))) }

let parse_migs s =
  List.mapi (fun idx m -> match String.split_on_char ':' m with
    | [o; t; mode; f; y] -> mk_stub idx (o = "o") (ios t) mode (ios f) (ios y)
    | _ -> failwith "mig") (split ',' s)

let show_result = function
  | ROk -> "ok" | RCancelled -> "cancelled" | RFailed -> "failed" | RRefusedOptOut -> "optout"
  | RRefusedDowngrade -> "downgrade" | ROutOfFuel -> "fuel"
let show_inter l =
  let l = List.sort compare (List.map (fun (i, t) -> (int_of_nat i, int_of_n t)) l) in
  if l = [] then "-" else String.concat "," (List.map (fun (i, t) -> soi i ^ ":" ^ soi t) l)
let show_state (p : (n list, n) pstate) =
  hex_of_n p.cur ^ " " ^ hex_of_n p.last ^ " " ^ show_inter p.inter ^ " "
  ^ String.concat "," (List.map (fun v -> soi (int_of_n v)) p.pdb)
let show_tok = function None -> "-" | Some t -> soi (int_of_n t)
let show_outcome = function
  | Done -> "D" | Suspended t -> "S" ^ soi (int_of_n t) | Yield t -> "Y" ^ soi (int_of_n t)
  | Failed -> "F" | NilWithCtxErr -> "N"
let show_event = function
  | EInvoke (i, t) -> Some ("I" ^ soi (int_of_nat i) ^ ":" ^ show_tok t)
  | EReturn (i, o) -> Some ("R" ^ soi (int_of_nat i) ^ ":" ^ show_outcome o)
  | ESaved (_, _) -> None
  | EApplied i -> Some ("A" ^ soi (int_of_nat i))
let parse_outcome s =
  match s.[0] with
  | 'D' -> Done | 'F' -> Failed | 'N' -> NilWithCtxErr
  | 'S' -> Suspended (n_of_int (ios (String.sub s 1 (String.length s - 1))))
  | 'Y' -> Yield (n_of_int (ios (String.sub s 1 (String.length s - 1))))
  | _ -> failwith "outcome"
let parse_event s : n event =
  let body = String.sub s 1 (String.length s - 1) in
  match s.[0] with
  | 'A' -> EApplied (nat_of_int (ios body))
  | 'I' -> (match String.split_on_char ':' body with
            | [i; t] -> EInvoke (nat_of_int (ios i), (if t = "-" then None else Some (n_of_int (ios t))))
            | _ -> failwith "ev")
  | 'R' -> (match String.split_on_char ':' body with
            | [i; o] -> EReturn (nat_of_int (ios i), parse_outcome o)
            | _ -> failwith "ev")
  | _ -> failwith "ev"

let do_r rest =
  match List.map String.trim (String.split_on_char ';' rest) with
  | [migs; cfg; st] ->
    let es = parse_migs migs in
    (match words cfg, words st with
     | [fuel; en; cancel; fault], [cur; last; inter; db] ->
       let ck x = if x = "-" then None else Some (nat_of_int (ios x)) in
       let clk = (ck cancel, ck fault) in
       let inter = List.map (fun e -> match String.split_on_char ':' e with
         | [i; t] -> (nat_of_int (ios i), n_of_int (ios t)) | _ -> failwith "inter") (split ',' inter) in
       let s = { cur = n_of_hex cur; last = n_of_hex last; inter = inter;
                 pdb = List.map (fun v -> n_of_int (ios v)) (split ',' db) } in
       let (st, r) = run_boot es (nat_of_int (ios fuel)) (n_of_hex en) clk s in
       let log = List.filter_map show_event (List.rev st.ms_log) in
       let trace = List.map show_state (List.rev st.ms_trace) in
       show_result r ^ " | " ^ show_state st.ms_p ^ " | " ^ (if log = [] then "-" else String.concat "," log)
       ^ " | " ^ (if trace = [] then "-" else String.concat "~" trace) ^ " | " ^ tf (applied_after_done st.ms_log)
     | _ -> failwith "R fields")
  | _ -> failwith "R"

(* ---------- blocktransactions ---------- *)
let parse_ids s = if s = "e" then [] else List.map (fun x -> n_of_int (ios x)) (String.split_on_char '.' s)
let show_ids l = if l = [] then "e" else String.concat "." (List.map (fun x -> soi (int_of_n x)) l)
let parse_block s : block =
  match String.split_on_char '/' s with
  | [c; otx; orc; nw] ->
    { b_count = n_of_int (ios c); b_otx = parse_ids otx; b_orc = parse_ids orc;
      b_new = (if nw = "-" then None else match String.split_on_char ';' nw with
        | [a; b] -> Some (parse_ids a, parse_ids b) | _ -> failwith "new") }
  | _ -> failwith ("block " ^ s)
let parse_db s : btdb = if s = "_" then [] else List.map parse_block (String.split_on_char ',' s)
let show_block (b : block) =
  soi (int_of_n b.b_count) ^ "/" ^ show_ids b.b_otx ^ "/" ^ show_ids b.b_orc ^ "/"
  ^ (match b.b_new with None -> "-" | Some (a, c) -> show_ids a ^ ";" ^ show_ids c)
let show_db (d : btdb) = if d = [] then "_" else String.concat "," (List.map show_block d)

(* ---------- statedifflength / headstate at batch granularity ---------- *)
let parse_sblock b = if b = "-" then None else match String.split_on_char ':' b with
  | [l; d] -> Some { s_len = n_of_int (ios l); s_sdl = n_of_int (ios d) } | _ -> failwith "sblock"
let show_sblock = function None -> "-" | Some b -> soi (int_of_n b.s_len) ^ ":" ^ soi (int_of_n b.s_sdl)
let parse_sdb s : sblock option list = if s = "_" then [] else List.map parse_sblock (String.split_on_char ',' s)
let show_sdb (d : sblock option list) = if d = [] then "_" else String.concat "," (List.map show_sblock d)
let parse_batches (f : string -> 'a) (s : string) : 'a list list =
  if s = "-" then [] else
  List.map (fun b -> if b = "e" then [] else List.map f (String.split_on_char '.' b)) (String.split_on_char ';' s)

let do_sa rest =
  match words rest with
  | [ck; db; en; bs] ->
    let ck = nat_of_int (ios ck) in
    let db = parse_sdb db in
    let e = match en.[0] with
      | 'd' -> SEDone | 'e' -> SEError | 'x' -> SECrash
      | 'c' -> SECheckpoint (nat_of_int (ios (String.sub en 1 (String.length en - 1))))
      | _ -> failwith "end" in
    let a = { sa_batches = parse_batches (fun x -> nat_of_int (ios x)) bs; sa_end = e } in
    let ok = sdl_attempt_ok ck db a in
    let tr = sdl_trace db a.sa_batches in
    let s' = sdl_apply { sp_db = db; sp_ck = ck; sp_applied = false } a in
    let fin = s'.sp_db in
    let u = sdl_uninterrupted s'.sp_ck fin in
    let s'' = sdl_apply { sp_db = fin; sp_ck = s'.sp_ck; sp_applied = false } u in
    let completes = sdl_attempt_ok s'.sp_ck fin u && s''.sp_applied && s''.sp_db = sdl_complete db in
    (* the same observation replayed on the step-level model (sdl_step, the migration the runner-level
       theorem speaks about) under the environment that proposes exactly the observed batches *)
    let stepmodel =
      if not ok then "-" else
      let tok0 = if int_of_nat ck = 0 then None else Some (SCk ck) in
      let bs = a.sa_batches in
      let rec run d t k =          (* k uncancelled steps *)
        if k = 0 then `Going (d, t) else
        match sdl_step (fun _ _ -> (bs, O)) d t false with
        | (d', Done) -> `Done d'
        | (d', Suspended t') -> run d' (Some t') (k - 1)
        | (d', _) -> `Failed d' in
      (match e with
       | SEDone ->
         (match run db tok0 (List.length bs + 3) with
          | `Done d' -> tf (d' = fin)
          | _ -> "f")
       | SECheckpoint n ->
         (match run db tok0 (List.length bs) with
          | `Going (d, t) ->
            let env _ hi = (bs, nat_of_int (Stdlib.max 0 (int_of_nat n - int_of_nat hi))) in
            (match sdl_step env d t true with
             | (d', Suspended (SCk n')) -> tf (d' = fin && n' = n)
             | _ -> "f")
          | _ -> "f")
       | _ -> "-") in
    tf ok ^ " | " ^ (if tr = [] then "-" else String.concat "~" (List.map show_sdb tr)) ^ " | " ^ show_sdb fin
    ^ " | " ^ soi (int_of_nat s'.sp_ck) ^ " " ^ tf s'.sp_applied
    ^ " | " ^ tf (sdl_ck_ok fin s'.sp_ck) ^ " " ^ tf (sdl_done fin) ^ " " ^ tf (sdl_wf db) ^ " " ^ tf completes ^ " " ^ stepmodel
  | _ -> failwith "SA"

let opt_hex s = if s = "-" then None else Some (n_of_hex s)
let show_opt = function None -> "-" | Some v -> hex_of_n v
let parse_hrow s : hrow =
  match String.split_on_char '/' s with
  | [a; c; n; h; k] ->
    { r_addr = n_of_hex a; r_class = opt_hex c; r_nonce = opt_hex n; r_height = opt_hex h;
      r_contract = (if k = "-" then None else match String.split_on_char '.' k with
        | [x; y; z] -> Some ((n_of_hex x, n_of_hex y), n_of_hex z) | _ -> failwith "contract") }
  | _ -> failwith ("hrow " ^ s)
let show_hrow (r : hrow) =
  hex_of_n r.r_addr ^ "/" ^ show_opt r.r_class ^ "/" ^ show_opt r.r_nonce ^ "/" ^ show_opt r.r_height ^ "/"
  ^ (match r.r_contract with None -> "-" | Some ((x, y), z) -> hex_of_n x ^ "." ^ hex_of_n y ^ "." ^ hex_of_n z)
let parse_hsdb s : hrow list = if s = "_" then [] else List.map parse_hrow (String.split_on_char ',' s)
let show_hsdb (d : hrow list) = if d = [] then "_" else String.concat "," (List.map show_hrow d)

let do_ha rest =
  match words rest with
  | [db; en; wipes; bs] ->
    let db = parse_hsdb db in
    let e = match en.[0] with 'd' -> HEDone | 'i' -> HEInterrupted | 'e' -> HEError | 'x' -> HECrash | _ -> failwith "end" in
    let a = { ha_batches = parse_batches n_of_hex bs; ha_wipes = nat_of_int (ios wipes); ha_end = e } in
    let ok = hs_attempt_ok db a in
    let tr = hs_trace db a in
    let s' = hs_apply { hp_db = db; hp_tok = false; hp_applied = false } a in
    let stepmodel =
      if not ok then "-" else
      let bs = a.ha_batches in
      let rec run d t k =
        if k = 0 then `Going (d, t) else
        match hs_step (fun _ _ -> (bs, O)) d t false with
        | (d', Done) -> `Done d'
        | (d', Suspended t') -> run d' (Some t') (k - 1)
        | (d', _) -> `Failed d' in
      (match e with
       | HEDone ->
         (match run db None (List.length bs + 6) with
          | `Done d' -> tf (d' = s'.hp_db)
          | _ -> "f")
       | HEInterrupted ->
         (match run db None (List.length bs) with
          | `Going (d, t) ->
            let n = List.length (List.filter (fun r -> r.r_class <> None) db) in
            let rec try_k k =
              if k >= n then false else
              let env _ hi = (bs, nat_of_int (Stdlib.max 0 (k - int_of_nat hi))) in
              (match hs_step env d t true with
               | (d', Suspended HTok) when d' = s'.hp_db -> true
               | _ -> try_k (k + 1)) in
            tf (try_k 0)
          | _ -> "f")
       | _ -> "-") in
    tf ok ^ " | " ^ (if tr = [] then "-" else String.concat "~" (List.map show_hsdb tr)) ^ " | " ^ show_hsdb s'.hp_db
    ^ " | " ^ tf s'.hp_tok ^ " " ^ tf s'.hp_applied
    ^ " | " ^ tf (hs_ok db) ^ " " ^ tf (hs_wiped s'.hp_db) ^ " " ^ show_hsdb (hs_complete db) ^ " " ^ stepmodel
  | _ -> failwith "HA"

let do_hv rest =
  match words rest with
  | [db0; db] ->
    let db0 = parse_hsdb db0 and db = parse_hsdb db in
    tf (hs_consistent db0) ^ " " ^ tf (hs_new_view db = hs_legacy_view db0) ^ " " ^ tf (hs_wiped db)
  | _ -> failwith "HV"

let () =
  read_lines (fun line ->
    let line = String.trim line in
    let cmd, rest = match String.index_opt line ' ' with
      | Some i -> String.sub line 0 i, String.sub line (i + 1) (String.length line - i - 1)
      | None -> line, "" in
    let reply = match cmd with
      | "R" -> do_r rest
      | "BC" -> (match words rest with
          | [tok; db] ->
            let d = parse_db db in
            let t = if tok = "r" then Some Rescan else None in
            (match bt_complete (nat_of_int (List.length d + 3)) d t with
             | Some d' -> "some " ^ show_db d' | None -> "none")
          | _ -> failwith "BC")
      | "BI" ->
          let d = parse_db (String.trim rest) in
          tf (wf_old d) ^ " " ^ tf (no_empty_range d) ^ " "
          ^ (match get_first d with FNone -> "none" | FErr -> "err" | FSome m -> soi (int_of_nat m))
      | "BP" -> (match words rest with
          | [r; db] -> tf (preserved (List.map content (parse_db r)) (parse_db db))
          | _ -> failwith "BP")
      | "SD" -> (match words rest with
          | [ck; db] ->
            let parse b = if b = "-" then None else match String.split_on_char ':' b with
              | [l; d] -> Some { s_len = n_of_int (ios l); s_sdl = n_of_int (ios d) } | _ -> failwith "sblock" in
            let show = function None -> "-" | Some b -> soi (int_of_n b.s_len) ^ ":" ^ soi (int_of_n b.s_sdl) in
            (match sdl_migrate (nat_of_int (ios ck)) (List.map parse (String.split_on_char ',' db)) with
             | Some d -> "some " ^ String.concat "," (List.map show d) | None -> "none")
          | _ -> failwith "SD")
      | "SA" -> do_sa rest
      | "HA" -> do_ha rest
      | "HV" -> do_hv rest
      | "AD" ->
          let evs = List.map parse_event (split ',' (String.trim rest)) in
          tf (applied_after_done (List.rev evs))
      | _ -> failwith ("cmd " ^ cmd) in
    print_endline reply; flush stdout)
