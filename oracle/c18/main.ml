(* C18 oracle. One request per line, one reply line.
   R <migs> ; <fuel> <enabled hex> <cancel|-> <ioerror|-> ; <cur hex> <last hex> <inter|-> <db>
       (cancel / ioerror: after that many writes the context is cancelled / the store fails once)
       migs  = m|o : total : mode(s|n) : failat : yieldat   joined by ','
       inter = i:t joined by ','      db = progress per migration joined by ','
     -> <result> | <cur> <last> <inter> <db> | <log> | <trace states joined by '~'> | <aad t/f>
   BC <tok -|r> <btdb>        -> some <btdb> | none          (bt_complete (len+3))
   BI <btdb>                  -> <wf_old> <no_empty_range> <get_first>
   BP <refbtdb> <btdb>        -> t|f                          (preserved (map content ref) db)
   AD <events chronological, ','-separated or ->  -> t|f       (applied_after_done)
   SD <checkpoint> <sdb>      -> some <sdb> | none            (sdl_migrate)   sdb: blocks ','-separated,
                                                              '-' = pruned, len:sdl otherwise *)
let ios = int_of_string
let soi = string_of_int
let split c s = if s = "-" || s = "" then [] else String.split_on_char c s
let tf b = if b then "t" else "f"

(* ---------- runner with scripted stub migrations ---------- *)
let mk_stub idx opt total mode failat yieldat : (n list, n) migration =
  { mig_optional = opt;
    mig_step = (fun db tok c ->
      let p = match tok with Some t -> int_of_n t | None -> 0 in
      if c then (db, (if mode = "n" then NilWithCtxErr else Suspended (n_of_int p)))
      else if failat = p + 1 then (db, Failed)
      else
        let db' = List.mapi (fun j v -> if j = idx then n_of_int (max (int_of_n v) (p + 1)) else v) db in
        if p + 1 >= total then (db', Done)
        else if yieldat = p + 1 then (db', Yield (n_of_int (p + 1)))
        else (db', Suspended (n_of_int (p + 1)))) }

let parse_migs s =
  List.mapi (fun idx m -> match String.split_on_char ':' m with
    | [o; t; mode; f; y] -> mk_stub idx (o = "o") (ios t) mode (ios f) (ios y)
    | _ -> failwith "mig") (split ',' s)

let show_result = function
  | ROk -> "ok" | RCancelled -> "cancelled" | RFailed -> "failed" | RRefusedOptOut -> "optout"
  | RRefusedDowngrade -> "downgrade" | ROutOfFuel -> "fuel"
let show_inter l =
  let l = List.sort compare (List.map (fun (i, t) -> (int_of_nat i, int_of_n t)) l) in
  if l = [] then "-" else String.concat "," (List.map (fun (i, t) -> soi i ^ ":" ^ soi t) l)
let show_state (p : (n list, n) pstate) =
  hex_of_n p.cur ^ " " ^ hex_of_n p.last ^ " " ^ show_inter p.inter ^ " "
  ^ String.concat "," (List.map (fun v -> soi (int_of_n v)) p.pdb)
let show_tok = function None -> "-" | Some t -> soi (int_of_n t)
let show_outcome = function
  | Done -> "D" | Suspended t -> "S" ^ soi (int_of_n t) | Yield t -> "Y" ^ soi (int_of_n t)
  | Failed -> "F" | NilWithCtxErr -> "N"
let show_event = function
  | EInvoke (i, t) -> Some ("I" ^ soi (int_of_nat i) ^ ":" ^ show_tok t)
  | EReturn (i, o) -> Some ("R" ^ soi (int_of_nat i) ^ ":" ^ show_outcome o)
  | ESaved (_, _) -> None
  | EApplied i -> Some ("A" ^ soi (int_of_nat i))
let parse_outcome s =
  match s.[0] with
  | 'D' -> Done | 'F' -> Failed | 'N' -> NilWithCtxErr
  | 'S' -> Suspended (n_of_int (ios (String.sub s 1 (String.length s - 1))))
  | 'Y' -> Yield (n_of_int (ios (String.sub s 1 (String.length s - 1))))
  | _ -> failwith "outcome"
let parse_event s : n event =
  let body = String.sub s 1 (String.length s - 1) in
  match s.[0] with
  | 'A' -> EApplied (nat_of_int (ios body))
  | 'I' -> (match String.split_on_char ':' body with
            | [i; t] -> EInvoke (nat_of_int (ios i), (if t = "-" then None else Some (n_of_int (ios t))))
            | _ -> failwith "ev")
  | 'R' -> (match String.split_on_char ':' body with
            | [i; o] -> EReturn (nat_of_int (ios i), parse_outcome o)
            | _ -> failwith "ev")
  | _ -> failwith "ev"

let do_r rest =
  match List.map String.trim (String.split_on_char ';' rest) with
  | [migs; cfg; st] ->
    let es = parse_migs migs in
    (match words cfg, words st with
     | [fuel; en; cancel; fault], [cur; last; inter; db] ->
       let ck x = if x = "-" then None else Some (nat_of_int (ios x)) in
       let clk = (ck cancel, ck fault) in
       let inter = List.map (fun e -> match String.split_on_char ':' e with
         | [i; t] -> (nat_of_int (ios i), n_of_int (ios t)) | _ -> failwith "inter") (split ',' inter) in
       let s = { cur = n_of_hex cur; last = n_of_hex last; inter = inter;
                 pdb = List.map (fun v -> n_of_int (ios v)) (split ',' db) } in
       let (st, r) = run_boot es (nat_of_int (ios fuel)) (n_of_hex en) clk s in
       let log = List.filter_map show_event (List.rev st.ms_log) in
       let trace = List.map show_state (List.rev st.ms_trace) in
       show_result r ^ " | " ^ show_state st.ms_p ^ " | " ^ (if log = [] then "-" else String.concat "," log)
       ^ " | " ^ (if trace = [] then "-" else String.concat "~" trace) ^ " | " ^ tf (applied_after_done st.ms_log)
     | _ -> failwith "R fields")
  | _ -> failwith "R"

(* ---------- blocktransactions ---------- *)
let parse_ids s = if s = "e" then [] else List.map (fun x -> n_of_int (ios x)) (String.split_on_char '.' s)
let show_ids l = if l = [] then "e" else String.concat "." (List.map (fun x -> soi (int_of_n x)) l)
let parse_block s : block =
  match String.split_on_char '/' s with
  | [c; otx; orc; nw] ->
    { b_count = n_of_int (ios c); b_otx = parse_ids otx; b_orc = parse_ids orc;
      b_new = (if nw = "-" then None else match String.split_on_char ';' nw with
        | [a; b] -> Some (parse_ids a, parse_ids b) | _ -> failwith "new") }
  | _ -> failwith ("block " ^ s)
let parse_db s : btdb = if s = "_" then [] else List.map parse_block (String.split_on_char ',' s)
let show_block (b : block) =
  soi (int_of_n b.b_count) ^ "/" ^ show_ids b.b_otx ^ "/" ^ show_ids b.b_orc ^ "/"
  ^ (match b.b_new with None -> "-" | Some (a, c) -> show_ids a ^ ";" ^ show_ids c)
let show_db (d : btdb) = if d = [] then "_" else String.concat "," (List.map show_block d)

let () =
  read_lines (fun line ->
    let line = String.trim line in
    let cmd, rest = match String.index_opt line ' ' with
      | Some i -> String.sub line 0 i, String.sub line (i + 1) (String.length line - i - 1)
      | None -> line, "" in
    let reply = match cmd with
      | "R" -> do_r rest
      | "BC" -> (match words rest with
          | [tok; db] ->
            let d = parse_db db in
            let t = if tok = "r" then Some Rescan else None in
            (match bt_complete (nat_of_int (List.length d + 3)) d t with
             | Some d' -> "some " ^ show_db d' | None -> "none")
          | _ -> failwith "BC")
      | "BI" ->
          let d = parse_db (String.trim rest) in
          tf (wf_old d) ^ " " ^ tf (no_empty_range d) ^ " "
          ^ (match get_first d with FNone -> "none" | FErr -> "err" | FSome m -> soi (int_of_nat m))
      | "BP" -> (match words rest with
          | [r; db] -> tf (preserved (List.map content (parse_db r)) (parse_db db))
          | _ -> failwith "BP")
      | "SD" -> (match words rest with
          | [ck; db] ->
            let parse b = if b = "-" then None else match String.split_on_char ':' b with
              | [l; d] -> Some { s_len = n_of_int (ios l); s_sdl = n_of_int (ios d) } | _ -> failwith "sblock" in
            let show = function None -> "-" | Some b -> soi (int_of_n b.s_len) ^ ":" ^ soi (int_of_n b.s_sdl) in
            (match sdl_migrate (nat_of_int (ios ck)) (List.map parse (String.split_on_char ',' db)) with
             | Some d -> "some " ^ String.concat "," (List.map show d) | None -> "none")
          | _ -> failwith "SD")
      | "AD" ->
          let evs = List.map parse_event (split ',' (String.trim rest)) in
          tf (applied_after_done (List.rev evs))
      | _ -> failwith ("cmd " ^ cmd) in
    print_endline reply; flush stdout)
