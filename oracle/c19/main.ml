(* C19 oracle: the extracted model instantiated with the free digest algebra (term), ideal signatures
   and — for Reed-Solomon — the real encoder's output supplied by the harness (parity shards as a
   table, recovery = ideal MDS decoder of that codeword). One request per line. *)
let byte_of_int (i : int) : ascii = ascii_of_N (n_of_int i)
let int_of_byte (b : ascii) : int = int_of_n (n_of_ascii b)
let bytes_of_hex (s : string) : ascii list =
  if s = "-" then [] else
  List.init (String.length s / 2) (fun i -> byte_of_int (16 * hexval s.[2*i] + hexval s.[2*i+1]))
let hex_of_bytes (l : ascii list) : string =
  if l = [] then "-" else String.concat "" (List.map (fun b -> Printf.sprintf "%02x" (int_of_byte b)) l)
let hex0 (l : ascii list) : string = String.concat "" (List.map (fun b -> Printf.sprintf "%02x" (int_of_byte b)) l)

(* prefix code: N t t | L hex . | C hex . *)
let rec show_term (t : term) : string = match t with
  | TL d -> "L" ^ hex0 d ^ "."
  | TN (a, b) -> "N" ^ show_term a ^ show_term b
  | TC c -> "C" ^ hex0 c ^ "."
let show_proof (p : term list) : string = if p = [] then "-" else String.concat "," (List.map show_term p)

let d0 : term = TC (List.init 32 (fun _ -> byte_of_int 0))
let shards_of_arg (s : string) : ascii list list = List.map bytes_of_hex (String.split_on_char ',' s)
let mask_of (s : string) : bool list = List.init (String.length s) (fun i -> s.[i] = '1')
let rec drop n l = if n <= 0 then l else match l with [] -> [] | _ :: r -> drop (n - 1) r
let raw (s : ascii list) : ascii list = s
let proto1 (s : ascii list) : ascii list = proto_shards [s]

let show_unpad = function UOk m -> "ok:" ^ hex_of_bytes m | UErr -> "err" | UPanic -> "panic"
let show_cerr = function ENoUnits -> "nounits" | ERS -> "rs" | EShardSize -> "shardsize" | ERoot -> "root" | EUnpad -> "unpad"
let show_cres = function
  | COk (m, s, p) -> "ok:" ^ hex_of_bytes m ^ ":" ^ hex_of_bytes s ^ ":" ^ show_proof p
  | CErr e -> "err:" ^ show_cerr e
  | CPanic -> "panic"
let show_origin = function OOk -> "ok" | OSelfSend -> "selfsend" | OSelfPublished -> "selfpub"
  | OSchedule -> "sched" | OUnexpected -> "unexpected"
let show_vres = function VOk -> "ok" | VDup -> "dup" | VOrigin o -> "origin-" ^ show_origin o
  | VShardCount -> "shardcount" | VMerkle -> "merkle" | VSigMismatch -> "sigmismatch" | VSig -> "sig"

let junk32 (v : int) : ascii list = List.init 32 (fun _ -> byte_of_int v)
let rec set_nth l i v = match l with [] -> [] | x :: r -> if i = 0 then v :: r else x :: set_nth r (i - 1) v
let rec drop_last = function [] -> [] | [_] -> [] | x :: r -> x :: drop_last r
let num_after (pre : string) (s : string) : int =
  int_of_string (String.sub s (String.length pre) (String.length s - String.length pre))
let starts (pre : string) (s : string) = String.length s >= String.length pre && String.sub s 0 (String.length pre) = pre

let corrupt (u : (term, sigt) unit_) (c : string) : (term, sigt) unit_ =
  if c = "none" then u
  else if c = "dataempty" then { u with u_shards = [] }
  else if c = "data2" then { u with u_shards = u.u_shards @ u.u_shards }
  else if starts "data" c then
    let pos = num_after "data" c in
    (match u.u_shards with
     | s :: r -> let b = int_of_byte (List.nth s pos) in { u with u_shards = set_nth s pos (byte_of_int (b lxor 1)) :: r }
     | [] -> u)
  else if c = "sibdrop" then { u with u_proof = drop_last u.u_proof }
  else if c = "sibadd" then { u with u_proof = u.u_proof @ [TC (junk32 0xaa)] }
  else if starts "sib" c then { u with u_proof = set_nth u.u_proof (num_after "sib" c) (TC (junk32 0xbb)) }
  else if c = "root" then { u with u_root = TC (junk32 0xcc) }
  else if starts "index" c then { u with u_index = nat_of_int (num_after "index" c) }
  else if c = "sig" then { u with u_sig = SJunk (n_of_int 1) }
  else if c = "sigempty" then { u with u_sig = SJunk (n_of_int 0) }
  else if c = "committee" then { u with u_committee = junk32 0xdd }
  else if starts "nonce" c then { u with u_nonce = n_of_int (num_after "nonce" c) }
  else if starts "publisher" c then { u with u_publisher = n_of_int (num_after "publisher" c) }
  else failwith ("corruption " ^ c)

let () =
  read_lines (fun line ->
    (match words line with
    | ["tags"] ->
        Printf.printf "tags %s %s %s %s %s\n" (hex0 leaf_open) (hex0 leaf_close) (hex0 node_open) (hex0 node_mid) (hex0 node_close)
    | ["pad"; k; m] ->
        let p = pad (bytes_of_hex m) (n_of_int (int_of_string k)) in
        Printf.printf "pad %s %s\n" (hex_of_bytes p) (show_unpad (unpad p))
    | ["unpad"; p] -> Printf.printf "unpad %s\n" (show_unpad (unpad (bytes_of_hex p)))
    | ["uv"; x] -> Printf.printf "uv %s\n" (hex_of_bytes (uvarint (n_of_hex x)))
    | ["proto"; s] -> Printf.printf "proto %s\n" (hex_of_bytes (proto1 (bytes_of_hex s)))
    | ["merkle"; ls] ->
        let (r, ps) = merkle_new (fun d -> TL d) (fun a b -> TN (a, b)) d0 (shards_of_arg ls) in
        Printf.printf "root %s\nproofs %s\n" (show_term r) (String.concat "|" (List.map show_proof ps))
    | ["case"; k; par; local; nonce; m; shs; masks] ->
        let k = int_of_string k and par = int_of_string par and local = int_of_string local in
        let real = shards_of_arg shs in
        let parity_tbl = drop k real in
        let rs_parity = fun _ _ -> parity_tbl in
        let msg = bytes_of_hex m in
        let enc = encode rs_parity msg (nat_of_int k) (nat_of_int par) in
        let units = create (fun d -> TL d) (fun a b -> TN (a, b)) d0 t_sign rs_parity raw code_copy_nonce
                      (n_of_int 2) (junk32 1) (n_of_int (int_of_string nonce)) msg (nat_of_int k) (nat_of_int par) in
        Printf.printf "padded %s\n" (hex_of_bytes (pad msg (n_of_int k)));
        Printf.printf "enc %s\n" (String.concat "," (List.map hex_of_bytes enc));
        (match units with
         | u :: _ -> Printf.printf "root %s\n" (show_term u.u_root)
         | [] -> Printf.printf "root -\n");
        Printf.printf "proofs %s\n" (String.concat "|" (List.map (fun u -> show_proof u.u_proof) units));
        Printf.printf "nonce %s\n" (hex_of_n (match units with u :: _ -> u.u_nonce | [] -> n_of_int 0));
        let recover = ideal_recover enc in
        let outs = List.map (fun ms ->
          show_cres (construct term_eq_dec (fun d -> TL d) (fun a b -> TN (a, b)) d0 recover raw
                       (mask_units units (mask_of ms)) (nat_of_int local) (nat_of_int k) (nat_of_int par)))
          (if masks = "-" then [] else String.split_on_char ',' masks) in
        (* table of distinct outputs + index per mask *)
        let tbl = List.sort_uniq compare outs in
        List.iteri (fun i o -> Printf.printf "out %d %s\n" i o) tbl;
        let idx o = let rec go i = function [] -> -1 | x :: r -> if x = o then i else go (i + 1) r in go 0 tbl in
        Printf.printf "res %s\n" (String.concat "," (List.map (fun o -> string_of_int (idx o)) outs));
        print_endline "end"
    | ["val"; np; lr; pr; mode; copy; nonce; m; shs; steps] ->
        let np = int_of_string np in
        let peers = List.init np (fun i -> n_of_int (i + 1)) in
        let sc = match new_sched (n_of_int (int_of_string lr)) (List.rev peers) with Some s -> s | None -> failwith "sched" in
        let k = int_of_nat sc.s_k and par = int_of_nat sc.s_par in
        let real = shards_of_arg shs in
        let parity_tbl = drop k real in
        let rs_parity = fun _ _ -> parity_tbl in
        let leaf_c = if mode = "raw" then raw else proto1 in
        let msg = bytes_of_hex m in
        let pubn = n_of_int (int_of_string pr) in
        let units = create (fun d -> TL d) (fun a b -> TN (a, b)) d0 t_sign rs_parity leaf_c (copy = "1")
                      pubn (junk32 1) (n_of_int (int_of_string nonce)) msg sc.s_k sc.s_par in
        let enc = encode rs_parity msg sc.s_k sc.s_par in
        let root = match units with u :: _ -> u.u_root | [] -> d0 in
        let st = ref (v_init pubn) in
        let verdicts = List.map (fun step ->
          match String.split_on_char ':' step with
          | [ui; c; sr] ->
              let u = corrupt (List.nth units (int_of_string ui)) c in
              let (st', v) = validate term_eq_dec (fun d -> TL d) (fun a b -> TN (a, b)) sigt_eq_dec t_sig_ok
                               proto_shards sc !st u (n_of_int (int_of_string sr)) in
              st := st';
              (match v with
               | VOk -> if same_shard term_eq_dec enc root u then "ok+" else "ok-"
               | _ -> show_vres v)
          | _ -> failwith "step") (String.split_on_char ';' steps) in
        Printf.printf "val %d %d %s\n" k par (String.concat " " verdicts)
    | ["wire"; shs; root; sibs] ->
        (* UnitFromProto: lists are comma separated hex strings, "-" = empty list, "e" = empty byte string *)
        let lst a = if a = "-" then [] else List.map (fun x -> if x = "e" then [] else bytes_of_hex x) (String.split_on_char ',' a) in
        let show_l l = if l = [] then "-" else String.concat "," (List.map (fun x -> if x = [] then "e" else hex0 x) l) in
        let w = { w_shards = lst shs; w_root = (if root = "e" then [] else bytes_of_hex root); w_siblings = lst sibs } in
        let show = function
          | WOk (sh, r, sb) -> "ok " ^ show_l sh ^ " " ^ (if r = [] then "e" else hex0 r) ^ " " ^ show_l sb
          | WErr -> "err" | WPanic -> "panic" in
        let r = from_proto w in
        Printf.printf "wire %s | wf=%b | before-fix %s\n" (show r) (wire_wf r)
          (match from_proto_before_fix w with WOk _ -> "ok" | WErr -> "err" | WPanic -> "panic")
    | ["sched"; np; lr; pr] ->
        let np = int_of_string np in
        let peers = List.init np (fun i -> n_of_int (i + 1)) in
        (match new_sched (n_of_int (int_of_string lr)) peers with
         | None -> print_endline "sched none"
         | Some sc ->
             let li = match shard_index_for_publisher sc (n_of_int (int_of_string pr)) with
               | None -> "none" | Some i -> string_of_int (int_of_nat i) in
             let tot = int_of_nat (total_shards sc) in
             let ps = List.init (tot + 1) (fun i -> match peer_for_shard sc (n_of_int (int_of_string pr)) (nat_of_int i) with
               | None -> "none" | Some p -> string_of_int (int_of_n p)) in
             Printf.printf "sched %d %d %s %s\n" (int_of_nat sc.s_k) (int_of_nat sc.s_par) li (String.concat "," ps))
    | _ -> failwith ("request: " ^ line));
    flush stdout)
