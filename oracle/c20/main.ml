(* C20 oracle: a stateful co-process around the extracted model of the pre-confirmed chain storage.
   One command per line (see harness/cmd/c20/main.go for the producer).  Numbers are small
   decimals.  Text formats:
     diff   S/N/D/R/C1/M/C0   S = a.k.v,...   N,D,R,C1,M = a.v,...   C0 = h,...   ("-" = empty)
     item   hash:tx:rhash:rc:diff          items joined by '|'
     cls    h.c,...
     entry  num;id;items;diff;cls          chain = entries joined by ' ' (newest first), "-" = empty
   Output diffs / class maps are canonical (sorted by key, overridden entries dropped). *)
let ni = n_of_int
let ii = int_of_n

let list_of (sep : char) (s : string) : string list = if s = "-" then [] else String.split_on_char sep s
let nums (s : string) : int list = List.map int_of_string (String.split_on_char '.' s)

let parse_pairs s = List.map (fun t -> match nums t with [a; v] -> (ni a, ni v) | _ -> failwith "pair") (list_of ',' s)
let parse_diff (s : string) : diff =
  match String.split_on_char '/' s with
  | [st; n; d; r; c1; m; c0] ->
      { d_storage = List.map (fun t -> match nums t with [a; k; v] -> ((ni a, ni k), ni v) | _ -> failwith "triple") (list_of ',' st);
        d_nonces = parse_pairs n; d_deployed = parse_pairs d; d_replaced = parse_pairs r;
        d_decl1 = parse_pairs c1; d_migrated = parse_pairs m;
        d_decl0 = List.map (fun t -> ni (int_of_string t)) (list_of ',' c0) }
  | _ -> failwith ("diff: " ^ s)

let parse_item (s : string) : item =
  match String.split_on_char ':' s with
  | [h; t; rh; rc; d] -> { it_hash = ni (int_of_string h); it_tx = ni (int_of_string t);
                           it_rhash = ni (int_of_string rh); it_rc = ni (int_of_string rc); it_diff = parse_diff d }
  | _ -> failwith ("item: " ^ s)
let parse_items s = List.map parse_item (list_of '|' s)

(* canonical printing *)
let dedup_sorted cmpk l =
  let seen = Hashtbl.create 16 in
  let l = List.filter (fun (k, _) -> if Hashtbl.mem seen k then false else (Hashtbl.add seen k (); true)) l in
  List.sort (fun (a, _) (b, _) -> cmpk a b) l
let show_pairs l =
  let l = dedup_sorted compare (List.map (fun (k, v) -> (ii k, ii v)) l) in
  if l = [] then "-" else String.concat "," (List.map (fun (k, v) -> Printf.sprintf "%d.%d" k v) l)
let show_diff (d : diff) : string =
  let st = dedup_sorted compare (List.map (fun ((a, k), v) -> ((ii a, ii k), ii v)) d.d_storage) in
  let st = if st = [] then "-" else String.concat "," (List.map (fun ((a, k), v) -> Printf.sprintf "%d.%d.%d" a k v) st) in
  let c0 = if d.d_decl0 = [] then "-" else String.concat "," (List.map (fun h -> string_of_int (ii h)) d.d_decl0) in
  String.concat "/" [st; show_pairs d.d_nonces; show_pairs d.d_deployed; show_pairs d.d_replaced;
                     show_pairs d.d_decl1; show_pairs d.d_migrated; c0]
let show_item (it : item) =
  Printf.sprintf "%d:%d:%d:%d:%s" (ii it.it_hash) (ii it.it_tx) (ii it.it_rhash) (ii it.it_rc) (show_diff it.it_diff)
let show_items l = if l = [] then "-" else String.concat "|" (List.map show_item l)
let show_entry (e : entry) =
  Printf.sprintf "%d;%d;%s;%s;%s" (ii e.e_num) (ii e.e_id) (show_items e.e_items) (show_diff e.e_diff) (show_pairs e.e_classes)
let show_chain (c : entry list) = if c = [] then "-" else String.concat " " (List.map show_entry c)

let show_err = function
  | EBootstrapKind -> "bootstrap-kind" | EBootstrapHeight -> "bootstrap-height" | EUnaligned -> "unaligned"
  | EBelowOldest -> "below-oldest" | EGap -> "gap" | EAppendKind -> "append-kind"
  | EDeltaNonTip -> "delta-non-tip" | EBaseTxCount -> "base-tx-count" | EIdMismatch -> "id-mismatch"
  | ENoChangeNonTip -> "nochange-non-tip" | EAdapt -> "adapt" | EVersion -> "version"

(* ---------- heap-level model: state, denotation text, canonical object graph ---------- *)
let hs : hstate ref = ref hinit
let hview_text : string list ref = ref []        (* list-model text of each heap view at hand-out, newest first *)
let reg : (string * int, int) Hashtbl.t = Hashtbl.create 1024   (* (kind, oid) -> first-seen number, per case *)
let nreg = ref 0
let transient : (n * n option) option ref = ref None            (* the overlay of the last reader created *)
let hreset () = hs := hinit; hview_text := []; Hashtbl.reset reg; nreg := 0; transient := None

(* Canonical text of the object graph reachable from the published chain, every view handed out
   and the last reader: objects are numbered in first-seen order (numbers persist over the case),
   '*' marks an object never seen before this dump; the body of an object is printed at its first
   occurrence in a dump.  harness/cmd/c20/heap.go prints the same for the real object graph. *)
let dump () : string =
  let h = !hs.hs_heap in
  let b = Buffer.create 8192 in
  let add = Buffer.add_string b in
  let seen = Hashtbl.create 1024 in
  let tag kind (i : n) : bool =
    let key = (kind, ii i) in
    if not (Hashtbl.mem reg key) then (Hashtbl.add reg key !nreg; incr nreg; add "*");
    add kind; add (string_of_int (Hashtbl.find reg key));
    let first = not (Hashtbl.mem seen key) in
    Hashtbl.replace seen key (); first in
  let mapn (i : n) = ignore (tag "M" i) in
  let rec d_diff (i : n) =
    if tag "D" i then
      match hget h i with
      | Some (ODiff (st, no, de, re, d1, mi, d0)) ->
          add "{";
          if tag "O" st then begin
            add "[";
            List.iter (fun (a, m) -> add (string_of_int a); add ":"; mapn m; add ";")
              (List.sort compare (List.map (fun (a, m) -> (ii a, m)) (gouter h st)));
            add "]" end;
          List.iter (fun m -> add ","; mapn m) [no; de; re; d1; mi];
          add ","; d_slice false d0; add "}"
      | _ -> add "?"
  and d_slice children (s : slice) =
    match s.s_arr with
    | Some a when ii s.s_cap > 0 ->
        let first = tag "A" a in
        add (Printf.sprintf "/%d/%d" (ii s.s_len) (ii s.s_cap));
        if first && children then begin
          add "[";
          List.iter (fun c -> (match c with CRef o -> d_diff o | _ -> add "?"); add ";") (sl_cells h s);
          add "]" end
    | _ -> add "-" in
  let d_entry (i : n) =
    if tag "E" i then
      match hget h i with
      | Some (OEntry p) ->
          add "{";
          if tag "B" p.p_blk then
            (match hget h p.p_blk with
             | Some (OBlock (hdr, txs, rcs)) ->
                 add "{"; ignore (tag "H" hdr); add ","; d_slice false txs; add ","; d_slice false rcs; add "}"
             | _ -> add "?");
          add ",";
          if tag "S" p.p_su then
            (match hget h p.p_su with Some (OSU d) -> add "{"; d_diff d; add "}" | _ -> add "?");
          add ",";
          (match p.p_cls with None -> add "nil" | Some m -> mapn m);
          add ","; d_slice true p.p_txd; add "}"
      | _ -> add "?" in
  let rec d_node (o : n option) =
    match o with
    | None -> add "nil"
    | Some i ->
        if tag "N" i then
          match hget h i with
          | Some (ONode (e, p)) -> add "{"; d_entry e; add ","; d_node p; add "}"
          | _ -> add "?" in
  let d_view (lbl : string) ((hd, k) : view) =
    add lbl; d_node hd; add (Printf.sprintf "/%d|" (int_of_nat k)) in
  d_view "C:" !hs.hs_cur;
  List.iter (d_view "V:") (List.rev !hs.hs_views);
  (match !transient with
   | Some (d, c) -> add "R:"; d_diff d; add ","; (match c with None -> add "nil" | Some m -> mapn m); add "|"
   | None -> ());
  Buffer.contents b

let last_dump = ref ""

(* state *)
let cur : entry list ref = ref []
let hist : entry list list ref = ref [[]]          (* newest first; index from the end *)
let views : (int, entry list) Hashtbl.t = Hashtbl.create 64
let nviews = ref 0
let push c = cur := c; hist := c :: !hist
let hist_at j = let l = List.rev !hist in List.nth l j

let parse_query (s : string) : query * (n option) =
  match String.split_on_char '=' s with
  | [q; b] ->
      let base = if b = "e" then None else Some (ni (int_of_string b)) in
      let q = match String.split_on_char '.' q with
        | ["s"; a; k] -> QStorage (ni (int_of_string a), ni (int_of_string k))
        | ["n"; a] -> QNonce (ni (int_of_string a))
        | ["h"; a] -> QClassHash (ni (int_of_string a))
        | ["c"; h] -> QClass (ni (int_of_string h))
        | ["p"; h] -> QCasm (ni (int_of_string h))
        | ["m"; h] -> QCasmV2 (ni (int_of_string h))
        | ["u"; a; k] -> QLastUpd (ni (int_of_string a), ni (int_of_string k))
        | _ -> failwith ("query: " ^ s) in
      (q, base)
  | _ -> failwith ("query: " ^ s)

let show_opt = function None -> "e" | Some v -> string_of_int (ii v)

(* per query: code-faithful read / block-by-block fold / fold over the wire per-transaction diffs *)
let answer_reads r specb spect freshb fresht (qs : (query * n option) list) =
  "ok " ^ (if freshb then "1" else "0") ^ " " ^ (if fresht then "1" else "0") ^ " " ^
  String.concat " " (List.map (fun (q, _) -> show_opt (r q) ^ "/" ^ show_opt (specb q) ^ "/" ^ show_opt (spect q)) qs)

let () =
  read_lines (fun line ->
    (match words line with
     | ["reset"] -> cur := []; hist := [[]]; Hashtbl.reset views; nviews := 0; hreset (); print_endline "ok"
     | "apply" :: kind :: bn :: bt :: opc :: cls :: rest ->
         let u = match kind, rest with
           | "B", [id; fault; items] -> UBlock { ub_id = ni (int_of_string id); ub_items = parse_items items; ub_fault = ni (int_of_string fault) }
           | "D", [id; fault; items] -> UDelta { ud_id = ni (int_of_string id); ud_items = parse_items items; ud_fault = ni (int_of_string fault) }
           | "N", [] -> UNoChange
           | _ -> failwith ("apply: " ^ line) in
         let o = Apply (u, ni (int_of_string bn), ni (int_of_string bt), ni (int_of_string opc), parse_pairs cls) in
         let (c', out) = step !cur o in
         push c';
         hs := fst (hstep !hs (HOp o)); transient := None;
         (match out with
          | OApply (RErr e) -> print_endline ("err " ^ show_err e)
          | OApply RNoop -> print_endline "noop"
          | OApply (RApplied (_, a)) -> print_endline ("applied " ^ show_entry a)
          | _ -> failwith "apply out");
         print_endline ("chain " ^ show_chain !cur)
     | ["advance"; n] ->
         let (c', out) = step !cur (AdvanceTo (ni (int_of_string n))) in
         push c';
         hs := fst (hstep !hs (HOp (AdvanceTo (ni (int_of_string n))))); transient := None;
         (match out with OAdvance b -> print_endline (if b then "adv t" else "adv f") | _ -> failwith "adv out");
         print_endline ("chain " ^ show_chain !cur)
     | ["snap"; n] ->
         let n = int_of_string n in
         let v = snapshot !cur (ni n) in
         let id = !nviews in incr nviews; Hashtbl.replace views id v;
         hs := fst (hstep !hs (HOp (Snapshot (ni n)))); transient := None;
         hview_text := show_chain v :: !hview_text;
         let aligned = n > 0 && view_aligned (ni (n - 1)) v in
         Printf.printf "view %d %s %s\n" id (if aligned then "1" else "0") (show_chain v)
     | "view" :: entries ->
         (* a view given by its canonical text (what the Go code holds): the predicates are evaluated on it *)
         let parse_entry e = match String.split_on_char ';' e with
           | [num; id; items; d; cls] ->
               { e_num = ni (int_of_string num); e_id = ni (int_of_string id); e_items = parse_items items;
                 e_diff = parse_diff d; e_classes = parse_pairs cls }
           | _ -> failwith ("entry: " ^ e) in
         let v = if entries = ["-"] then [] else List.map parse_entry entries in
         let id = !nviews in incr nviews; Hashtbl.replace views id v;
         Printf.printf "view %d\n" id
     | ["snapat"; j; n] ->
         print_endline (show_chain (snapshot (hist_at (int_of_string j)) (ni (int_of_string n))))
     (* heap level: digest of the canonical object graph + the model's own cross-checks (the heap's
        published chain denotes the list model's chain; every view handed out still denotes what the
        list model handed out) *)
     | ["hdump"] ->
         let d = dump () in
         last_dump := d;
         let h = !hs.hs_heap in
         let bad = ref "ok" in
         if show_chain (denote_view h !hs.hs_cur) <> show_chain !cur then bad := "cur-denotes-another-chain";
         List.iteri (fun i (v, t) -> if show_chain (denote_view h v) <> t then bad := Printf.sprintf "view-%d-denotes-another-chain" i)
           (List.rev (List.combine !hs.hs_views !hview_text));
         Printf.printf "hd %s %d %s\n" (Digest.to_hex (Digest.string d)) (String.length d) !bad
     | ["hdrop"] -> transient := None; print_endline "ok"
     | ["hdumpfull"] -> print_endline !last_dump
     | ["hview"; i] -> print_endline (show_chain (denote_view !hs.hs_heap (nth_view !hs (nat_of_int (int_of_string i)))))
     | "hstate" :: vi :: b :: rest ->
         let o = match rest with
           | [] -> HStateAt (nat_of_int (int_of_string vi), ni (int_of_string b))
           | [i] -> HStateBefore (nat_of_int (int_of_string vi), ni (int_of_string b), ni (int_of_string i))
           | _ -> failwith "hstate" in
         let (s', out) = hstep !hs o in
         hs := s';
         (match out with
          | HOState (Inl SNotFound) -> transient := None; print_endline "err notfound"
          | HOState (Inl SIndexOOB) -> transient := None; print_endline "err oob"
          | HOState (Inl SBroken) -> transient := None; print_endline "err broken"
          | HOState (Inr (d, c)) ->
              transient := Some (d, c);
              Printf.printf "ok %s %s\n" (show_diff (denote_diff !hs.hs_heap d)) (show_pairs (gcls !hs.hs_heap c))
          | _ -> failwith "hstate out")
     | ["nhist"] -> print_endline (string_of_int (List.length !hist))
     | ["tx"; vid; h] ->
         (match tx_by_hash (Hashtbl.find views (int_of_string vid)) (ni (int_of_string h)) with
          | None -> print_endline "none" | Some t -> Printf.printf "some %d\n" (ii t))
     | ["rc"; vid; h] ->
         (match rc_by_hash (Hashtbl.find views (int_of_string vid)) (ni (int_of_string h)) with
          | None -> print_endline "none" | Some (x, n) -> Printf.printf "some %d %d\n" (ii x) (ii n))
     | "state" :: vid :: b :: qs ->
         let v = Hashtbl.find views (int_of_string vid) in
         let b = ni (int_of_string b) in
         let qs = List.map parse_query qs in
         let base q = List.assoc q qs in
         (match state_at v b base with
          | Inl _ -> print_endline "err notfound"
          | Inr r ->
              let es = upto b (List.rev v) in
              let spec = apply_diffs (List.map layer_of es) base in
              let fresh = deploy_fresh (List.map (fun e -> e.e_diff) es) in
              let tl = tx_layers es in
              print_endline (answer_reads r spec (apply_diffs tl base) fresh (deploy_fresh (List.map ldiff tl)) qs))
     | "before" :: vid :: b :: i :: qs ->
         let v = Hashtbl.find views (int_of_string vid) in
         let b = ni (int_of_string b) in
         let i = ni (int_of_string i) in
         let qs = List.map parse_query qs in
         let base q = List.assoc q qs in
         (match state_before_index v b i base with
          | Inl SNotFound -> print_endline "err notfound"
          | Inl SIndexOOB -> print_endline "err oob"
          | Inl SBroken -> print_endline "err broken"
          | Inr r ->
              (match before b (List.rev v) with
               | (pre, Some target) ->
                   let ls = before_layers pre target i in
                   let spec = apply_diffs ls base in
                   let fresh = deploy_fresh (List.map ldiff ls) in
                   let tl = before_tx_layers pre target i in
                   print_endline (answer_reads r spec (apply_diffs tl base) fresh (deploy_fresh (List.map ldiff tl)) qs)
               | _ -> print_endline "err broken"))
     | _ -> failwith ("command: " ^ line));
    flush stdout)
