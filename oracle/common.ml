(* Shared glue, textually appended after [open <extracted module>] so that it refers to that
   module's copies of nat / positive / N / Z / ascii. Trusted: conversions and tokenising only. *)
let rec nat_of_int (i : int) : nat = if i <= 0 then O else S (nat_of_int (i - 1))
let rec int_of_nat (x : nat) : int = match x with O -> 0 | S y -> 1 + int_of_nat y

let rec pos_of_int (i : int) : positive =
  if i <= 1 then XH else if i land 1 = 1 then XI (pos_of_int (i lsr 1)) else XO (pos_of_int (i lsr 1))
let rec int_of_pos (p : positive) : int =
  match p with XH -> 1 | XO q -> 2 * int_of_pos q | XI q -> 2 * int_of_pos q + 1
let n_of_int (i : int) : n = if i <= 0 then N0 else Npos (pos_of_int i)
let int_of_n (x : n) : int = match x with N0 -> 0 | Npos p -> int_of_pos p
let z_of_int (i : int) : z = if i = 0 then Z0 else if i > 0 then Zpos (pos_of_int i) else Zneg (pos_of_int (- i))
let int_of_z (x : z) : int = match x with Z0 -> 0 | Zpos p -> int_of_pos p | Zneg p -> - (int_of_pos p)

(* big numbers as hex strings (no 0x), most significant digit first *)
let hexval c = match c with
  | '0'..'9' -> Char.code c - 48 | 'a'..'f' -> Char.code c - 87 | 'A'..'F' -> Char.code c - 55
  | _ -> failwith "hex"
let pos_of_bits (bits : bool list) : positive option =
  (* bits most significant first *)
  List.fold_left (fun acc b -> match acc with
    | None -> if b then Some XH else None
    | Some p -> Some (if b then XI p else XO p)) None bits
let bits_of_hex (s : string) : bool list =
  let l = ref [] in
  String.iter (fun c -> let v = hexval c in
    l := ((v land 1) = 1) :: ((v land 2) = 2) :: ((v land 4) = 4) :: ((v land 8) = 8) :: !l) s;
  List.rev !l
let n_of_hex (s : string) : n = match pos_of_bits (bits_of_hex s) with None -> N0 | Some p -> Npos p
let z_of_hex (s : string) : z =
  if String.length s > 0 && s.[0] = '-' then
    (match pos_of_bits (bits_of_hex (String.sub s 1 (String.length s - 1))) with None -> Z0 | Some p -> Zneg p)
  else (match pos_of_bits (bits_of_hex s) with None -> Z0 | Some p -> Zpos p)
let hex_of_pos (p : positive) : string =
  let rec bits p acc = match p with XH -> true :: acc | XO q -> bits q (false :: acc) | XI q -> bits q (true :: acc) in
  let bs = bits p [] in   (* most significant first *)
  let n = List.length bs in
  let pad = (4 - n mod 4) mod 4 in
  let bs = (List.init pad (fun _ -> false)) @ bs in
  let buf = Buffer.create 64 in
  let rec go = function
    | a :: b :: c :: d :: r ->
        let v = (if a then 8 else 0) + (if b then 4 else 0) + (if c then 2 else 0) + (if d then 1 else 0) in
        Buffer.add_char buf "0123456789abcdef".[v]; go r
    | _ -> () in
  go bs; Buffer.contents buf
let hex_of_n (x : n) : string = match x with N0 -> "0" | Npos p -> hex_of_pos p
let hex_of_z (x : z) : string = match x with Z0 -> "0" | Zpos p -> hex_of_pos p | Zneg p -> "-" ^ hex_of_pos p

let split_on (c : char) (s : string) : string list =
  List.filter (fun x -> x <> "") (String.split_on_char c s)
let words (s : string) : string list = split_on ' ' (String.trim s)

let rec read_lines (f : string -> unit) : unit =
  match input_line stdin with
  | l -> f l; read_lines f
  | exception End_of_file -> ()
